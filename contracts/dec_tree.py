"""C01 / C09 / C16: answers read from one decay tree (the trees parse() stores: phase `resolved`).

`decay_mode` is a `decayline` node  value particle* photos? model ;  a `decay` node is  particle decayline*."""
from pyvc.contracts import contract

P = "decaylanguage.dec.dec."
LINE = ["wf_resolved(decay_mode)"]
NOTLINE = {"RuntimeError": "decay_mode.data != 'decayline'"}

contract(P + "get_decay_mother_name", types={"decay_tree": "obj:Tree"},
         requires=["typ(decay_tree.data, 'str')", "implies(decay_tree.data == 'decay', table_head(decay_tree))"],
         ensures=["same(result, decay_tree.children[0].children[0].value)", "typ(result, 'str')"],
         raises={"RuntimeError": "decay_tree.data != 'decay'"},
         returns="str", properties=["C01", "C03", "C09"])

contract(P + "get_branching_fraction", types={"decay_mode": "obj:Tree"}, requires=LINE,
         # the branching fraction is the numeric literal
         ensures=["result == float(decay_mode.children[0].children[0].value)"],
         raises=NOTLINE, returns="float", properties=["C01", "C09", "C16"])

contract(P + "get_final_state_particles", types={"decay_mode": "obj:Tree"}, requires=LINE,
         ensures=["isfresh(result)", "len(result) == len(daughters(decay_mode))",
                  "forall(lambda j: implies(0 <= j < len(result), same(result[j], daughters(decay_mode)[j])))"],
         raises=NOTLINE, returns="list", properties=["C01"])

contract(P + "get_final_state_particle_names", types={"decay_mode": "obj:Tree"}, requires=LINE,
         # every daughter once, verbatim, in order
         ensures=["isfresh(result)", "len(result) == len(daughters(decay_mode))",
                  "forall(lambda j: implies(0 <= j < len(result), same(result[j], daughters(decay_mode)[j].children[0].value) and typ(result[j], 'str')))"],
         raises=NOTLINE, returns="list", properties=["C01", "C09", "C16"])

contract(P + "get_model_name", types={"decay_mode": "obj:Tree"}, requires=LINE,
         ensures=["same(result, model_node(decay_mode).children[0].value)"],
         raises=NOTLINE, returns="str", properties=["C01", "C09", "C16"])

contract(P + "get_model_parameters", types={"decay_mode": "obj:Tree"}, requires=LINE,
         ensures=[
             # an absent list is reported as empty ("")
             "implies(not has_options(decay_mode), result == '')",
             # otherwise every parameter once, in order: numeric literals as floats, words verbatim (or the Define'd value)
             "implies(has_options(decay_mode), typ(result, 'list') and isfresh(result) and len(result) == len(options(decay_mode)))",
             "implies(has_options(decay_mode), forall(lambda j: implies(0 <= j < len(options(decay_mode)), same(lget(result, j), option_value(options(decay_mode)[j])))))",
         ],
         raises=NOTLINE, properties=["C01", "C09", "C16"])

# ---- DecFileParser: queries over the stored decay trees --------------------------------------------------
from pyvc.contracts import klass, constructor, spec_function  # noqa: E402
from decaylanguage.dec.dec import DecFileParser  # noqa: E402
import z3  # noqa: E402
from pyvc import smt  # noqa: E402
from pyvc.smt import VStr, get_ref  # noqa: E402
from pyvc.values import SV, SeqView, sv_bool, sv_ref  # noqa: E402

klass("DecFileParser", pycls=DecFileParser, slots=True,
      fields={"_additional_decay_models": None, "_dec_file": None, "_dec_file_names": "list", "_grammar": None,
              "_grammar_info": None, "_include_ccdecays": "bool", "_parsed_dec_file": None, "_parsed_decays": None})

C = P + "DecFileParser."
# representation invariant of a parsed instance: the stored tables are wf `decay` trees (after replacement)
PARSED = ["typ(self._parsed_decays, 'list')",
          "forall(lambda j: implies(0 <= j < llen(self._parsed_decays), wf_resolved(lget(self._parsed_decays, j), 'decay')))"]


@constructor("DecayModeDict", assumption="typing.TypedDict call = dict(**kwargs) in keyword order")
def new_decay_mode_dict(eng, s, args, kwargs):
    d = eng.new_dict(s)
    for k, v in kwargs.items():
        s.heap = s.heap.dset(d.ref, VStr(z3.StringVal(k)), eng.as_val(s, v).t)
    return [(d, s)]


@spec_function()
def mother_of(eng, st, tree):
    h = st.heap
    v = eng.as_val(st, tree)
    c = get_ref(h.get_field(get_ref(v.t), "children"))
    p = get_ref(h.lget(c, 0))
    tok = get_ref(h.lget(get_ref(h.get_field(p, "children")), 0))
    return SV(h.get_field(tok, "value"), None)


@spec_function()
def mother_token(eng, st, tree):
    h = st.heap
    v = eng.as_val(st, tree)
    c = get_ref(h.get_field(get_ref(v.t), "children"))
    p = get_ref(h.lget(c, 0))
    return SV(h.lget(get_ref(h.get_field(p, "children")), 0), "obj:Token")


@spec_function()
def lines_of(eng, st, tree):
    """the decayline children of a `decay` node (positions 1..), in order"""
    h = st.heap
    v = eng.as_val(st, tree)
    c = get_ref(h.get_field(get_ref(v.t), "children"))
    from pyvc.builtins_model import View
    return View(h.llen(c) - 1, lambda st2, j: SV(h.lget(c, 1 + j), "obj:Tree"))


DECAYS = "self._parsed_decays"
contract(C + "_check_parsing", requires=[], ensures=[],
         raises={"DecFileNotParsed": "self._parsed_dec_file is None"}, returns="none", properties=["C01"])

contract(C + "_find_decay_modes", types={"mother": "str"}, requires=PARSED,
         ensures=[
             "has_table(self, mother)",
             "isfresh(result)",
             "forall(lambda j: implies(0 <= j < len(result), wf_resolved(result[j], 'decayline')))",
         ],
         # the lines, in order, of the FIRST table whose mother is `mother`: callers get this sequence itself
         opts={"result_view": f"lines_of(lget({DECAYS}, first_table(self, mother)))", "entry_defined": True},
         defs=["has_table_def(self)"],
         raises={"DecFileNotParsed": "self._parsed_dec_file is None",
                 "DecayNotFound": "self._parsed_dec_file is not None and not has_table(self, mother)"},
         loops={"loop#0": {"invariant": [f"forall(lambda l: implies(0 <= l < _i, mother_of(lget({DECAYS}, l)) != mother))"]}},
         returns="tuple", properties=["C01", "C09", "C16"])

contract(C + "_decay_mode_details", types={"decay_mode": "obj:Tree", "display_photos_keyword": "bool"},
         requires=["wf_resolved(decay_mode, 'decayline')"],
         ensures=[
             "isfresh(result)", "dlen(result) == 4",
             "dhas(result, 'bf') and dhas(result, 'fs') and dhas(result, 'model') and dhas(result, 'model_params')",
             "dget(result, 'bf') == float(decay_mode.children[0].children[0].value)", "typ(dget(result, 'bf'), 'float')",
             # daughters verbatim and in order, in a list of its own
             "typ(dget(result, 'fs'), 'list') and isfresh(dget(result, 'fs')) and llen(dget(result, 'fs')) == len(daughters(decay_mode))",
             "forall(lambda j: implies(0 <= j < len(daughters(decay_mode)), same(lget(dget(result, 'fs'), j), daughters(decay_mode)[j].children[0].value)))",
             # PHOTOS shown iff the line carries it and it is asked for
             "dget(result, 'model') == (('PHOTOS ' + model_node(decay_mode).children[0].value) if (display_photos_keyword and has_photos(decay_mode)) else model_node(decay_mode).children[0].value)",
             "implies(not has_options(decay_mode), dget(result, 'model_params') == '')",
             "implies(has_options(decay_mode), typ(dget(result, 'model_params'), 'list') and isfresh(dget(result, 'model_params')) and llen(dget(result, 'model_params')) == len(options(decay_mode)))",
             # the two lists are objects of their own
             "not same(dget(result, 'model_params'), dget(result, 'fs'))",
             "implies(has_options(decay_mode), forall(lambda j: implies(0 <= j < len(options(decay_mode)), same(lget(dget(result, 'model_params'), j), option_value(options(decay_mode)[j])))))",
         ],
         returns="dict", properties=["C01", "C09", "C16"])

contract(C + "list_decay_modes", types={"mother": "str", "pdg_name": "bool"}, requires=PARSED + ["not pdg_name"],
         ensures=[
             f"forall(lambda k: implies(0 <= k < llen({DECAYS}) and mother_of(lget({DECAYS}, k)) == mother and "
             f"       forall(lambda l: implies(0 <= l < k, mother_of(lget({DECAYS}, l)) != mother)), "
             f"       len(result) == len(lines_of(lget({DECAYS}, k))) and "
             f"       forall(lambda j: implies(0 <= j < len(result), typ(result[j], 'list') and llen(result[j]) == len(daughters(lines_of(lget({DECAYS}, k))[j]))))))",
             "isfresh(result)",
         ],
         raises={"DecFileNotParsed": "self._parsed_dec_file is None",
                 "DecayNotFound": f"self._parsed_dec_file is not None and forall(lambda l: implies(0 <= l < llen({DECAYS}), mother_of(lget({DECAYS}, l)) != mother))"},
         defs=["has_table_def(self)"], opts={"entry_defined": True},
         loops={"comp#0": {"invariant": ["isfresh(_acc)", "len(_acc) == _i",
                                         "forall(lambda j: implies(0 <= j < _i, not same(lget(_acc, j), _acc)))",
                                         "forall(lambda j: implies(0 <= j < _i, typ(lget(_acc, j), 'list') and llen(lget(_acc, j)) == len(daughters(_seq[j]))))"],
                           "types": {"_acc": "list"}}},
         returns="list", properties=["C01"])


HT = z3.Function("has_table", smt.I, smt.Val, smt.B)


@spec_function()
def has_table(eng, st, parser, x):
    return sv_bool(HT(get_ref(eng.as_val(st, parser).t), eng.as_val(st, x).t))


FT = z3.Function("first_table", smt.I, smt.Val, smt.I)


@spec_function()
def first_table(eng, st, parser, x):
    """position in _parsed_decays of the FIRST table whose mother is x (meaningful where has_table(parser, x))"""
    from pyvc.values import sv_int
    return sv_int(FT(get_ref(eng.as_val(st, parser).t), eng.as_val(st, x).t))


@spec_function()
def has_table_def(eng, st, parser):
    """definition of has_table over the heap of the state it is evaluated in (function entry)"""
    h = st.heap
    p = get_ref(eng.as_val(st, parser).t)
    lst = get_ref(h.get_field(p, "_parsed_decays"))
    x = z3.Const("ht_x", smt.Val)
    l = z3.Int("ht_l")
    mo = lambda idx: mother_of(eng, st, SV(h.lget(lst, idx), "obj:Tree")).t
    ft = FT(p, x)
    return sv_bool(z3.And(
        # has_table(x) <-> some position holds a table of x;  first_table(x) is the least such position
        z3.ForAll([x], z3.Implies(HT(p, x), z3.And(0 <= ft, ft < h.llen(lst), mo(ft) == x)), patterns=[HT(p, x)]),
        z3.ForAll([x, l], z3.Implies(z3.And(HT(p, x), 0 <= l, l < ft), mo(l) != x), patterns=[z3.MultiPattern(HT(p, x), h.lget(lst, l))]),
        z3.ForAll([l], z3.Implies(z3.And(0 <= l, l < h.llen(lst)), HT(p, mo(l))), patterns=[h.lget(lst, l)])))


# ---- C01, tree side: "one decay table per Decay block, in file order" ------------------------------------------------
contract("decaylanguage.dec.dec.get_decays", types={"parsed_file": "obj:Tree"}, requires=["wf_labels(parsed_file, 'decay')"],
         ensures=["typ(result, 'list') and isfresh(result)",
                  # every Decay block, once, in file order
                  "llen(result) == len(stmts(parsed_file, 'decay'))",
                  "forall(lambda j: implies(0 <= j < llen(result), same(lget(result, j), stmts(parsed_file, 'decay')[j])))"],
         returns="list", properties=["C01"])

contract(C + "number_of_decays", requires=[f"self._parsed_dec_file is None or typ({DECAYS}, 'list')"],
         ensures=[f"result == llen({DECAYS})"],
         raises={"DecFileNotParsed": "self._parsed_dec_file is None"}, returns="int", properties=["C01"])

contract(C + "list_decay_mother_names", requires=PARSED,
         ensures=["typ(result, 'list') and isfresh(result)",
                  # one name per stored table, in the order of the tables
                  f"llen(result) == llen({DECAYS})",
                  f"forall(lambda j: implies(0 <= j < llen(result), same(lget(result, j), mother_of(lget({DECAYS}, j)))))"],
         raises={"DecFileNotParsed": "self._parsed_dec_file is None"}, returns="list", properties=["C01"])


# ---- C16: print_decay_modes -- which option combinations are refused, and "printing never alters the stored values" ----
# (what is printed -- order, scaling, 7 significant digits -- is text on stdout: bounded stand-in)
contract(C + "print_decay_modes",
         types={"mother": "str", "pdg_name": "bool", "print_model": "bool", "display_photos_keyword": "bool",
                "ascending": "bool", "normalize": "bool", "scale": "float|none"},
         requires=PARSED + ["not pdg_name"],
         ensures=["result is None", "has_table(self, mother)",
                  # accepted options: no scale, or a scale in ]0, 1] without normalisation
                  "scale is None or (not normalize and 0.0 < as_ty(scale, 'float') <= 1.0)"],
         opts={"entry_defined": True,
               # ... and it is not a way round the option checks: only with accepted options, on a table that exists
               "raises_only_if": {"ZeroDivisionError": "(scale is None or (not normalize and 0.0 < as_ty(scale, 'float') <= 1.0)) and self._parsed_dec_file is not None and has_table(self, mother)"}},
         defs=["has_table_def(self)"],
         # (DecFileNotParsed and DecayNotFound are RuntimeErrors: the first clause covers the three together)
         raises={"RuntimeError": "(scale is not None and (normalize or not (0.0 < as_ty(scale, 'float') <= 1.0))) or self._parsed_dec_file is None or not has_table(self, mother)",
                 # the common factor is a quotient: it does not exist when the values it is made from are all zero
                 "ZeroDivisionError": None,
                 "DecFileNotParsed": "(scale is None or (not normalize and 0.0 < scale <= 1.0)) and self._parsed_dec_file is None",
                 "DecayNotFound": "(scale is None or (not normalize and 0.0 < scale <= 1.0)) and self._parsed_dec_file is not None and not has_table(self, mother)",
                 # scaling divides by the largest value: a table without lines has none
                 "IndexError": f"scale is not None and not normalize and 0.0 < scale <= 1.0 and self._parsed_dec_file is not None and has_table(self, mother) and len(lines_of(lget({DECAYS}, first_table(self, mother)))) == 0"},
         loops={"loop#0": {"invariant": ["typ(ls, 'list') and isfresh(ls)", "llen(ls) == _i", "typ(max_length, 'int')",
                                         "forall(lambda j: implies(0 <= j < llen(ls), typ(lget(ls, j), 'tuple') and llen(lget(ls, j)) == 4 and typ(lget(lget(ls, j), 0), 'float')))"]},
                "loop#1": {"invariant": []}},
         returns="none", properties=["C16"])
