"""C09 (C08, C10): DecFileParser.build_decay_chains — the recursive unfolding of the decay tables.

The contract states ONE unfolding level; deeper levels are the results of the recursive calls, identified by the ghost
attributes `chain_mother` / `chain_stable` that the function's own contract writes on every chain it returns
(ghost_on_return): "each daughter appears either as its bare name or as the chain built for that daughter with the
same S" is then literally the postcondition."""
from pyvc.contracts import contract

C = "decaylanguage.dec.dec.DecFileParser."
DECAYS = "self._parsed_decays"
PARSED = ["self._parsed_dec_file is not None", f"typ({DECAYS}, 'list')",
          f"forall(lambda j: implies(0 <= j < llen({DECAYS}), wf_resolved(lget({DECAYS}, j), 'decay')))"]
S = "stable_particles"
# has_table(self, x): "some stored table has mother x".  It is an uninterpreted predicate whose definition (over the
# heap at function entry) is assumed through `defs`; using it at later program points is sound because the function's
# frame is empty (checked): nothing that existed at entry — in particular no stored table — is ever written.
HAS_TABLE = lambda x: f"has_table(self, {x})"
NO_TABLE = lambda x: f"not has_table(self, {x})"


def mode_facts(m, line):
    """m is the mode dictionary of decay line `line` (one list entry of a chain), daughters still to be looked at"""
    return [
        f"typ({m}, 'dict') and isfresh({m}) and dlen({m}) == 4 and dhas({m}, 'bf') and dhas({m}, 'fs') and dhas({m}, 'model') and dhas({m}, 'model_params')",
        f"dget({m}, 'bf') == float({line}.children[0].children[0].value)",
        # model without the PHOTOS keyword, parameters in order
        f"dget({m}, 'model') == model_node({line}).children[0].value",
        f"implies(not has_options({line}), dget({m}, 'model_params') == '')",
        f"implies(has_options({line}), typ(dget({m}, 'model_params'), 'list') and llen(dget({m}, 'model_params')) == len(options({line})))",
        f"implies(has_options({line}), forall(lambda q: implies(0 <= q < len(options({line})), same(lget(dget({m}, 'model_params'), q), option_value(options({line})[q])))))",
        f"typ(dget({m}, 'fs'), 'list') and isfresh(dget({m}, 'fs')) and llen(dget({m}, 'fs')) == len(daughters({line}))",
    ]


def daughter_done(fs, line, p):
    x = f"daughters({line})[{p}].children[0].value"
    sub = f"lget({fs}, {p})"
    guard = f"not ({x} in {S}) and {HAS_TABLE(x)}"
    return [
        # bare name: stable by request, or no table of its own
        f"implies(({x} in {S}) or {NO_TABLE(x)}, same({sub}, {x}))",
        # otherwise the chain built for that daughter with the same stable set
        f"implies({guard}, typ({sub}, 'dict') and isfresh({sub}))",
        f"implies({guard}, dlen({sub}) == 1 and key_at({sub}, 0) == {x})",
        f"implies({guard}, ghost({sub}, 'chain_mother') == {x})",
        f"implies({guard}, same(ghost({sub}, 'chain_stable'), {S}))",
    ]


def all_daughters_done(m, line):
    fs = f"dget({m}, 'fs')"
    return [f"forall(lambda p: implies(0 <= p < len(daughters({line})), {c}))" for c in daughter_done(fs, line, "p")]


INFO = "dget(result, mother)"
# first_table(self, x): position of the FIRST stored table whose mother is x (defined, like has_table, over the heap at
# entry by has_table_def: least position l with mother_of(_parsed_decays[l]) == x)
TABLE = f"lget({DECAYS}, first_table(self, mother))"
LINE = f"lines_of({TABLE})[j]"

contract(C + "build_decay_chains", types={"mother": "str", S: "list|tuple|set"},
         requires=PARSED,
         ensures=[
             "typ(result, 'dict') and isfresh(result) and dlen(result) == 1 and key_at(result, 0) == mother",
             f"typ({INFO}, 'list') and isfresh({INFO})",
             # one entry per decay line of the (first) table of the mother, in order
             "has_table(self, mother)",
             f"llen({INFO}) == len(lines_of({TABLE}))",
         ] + [f"forall(lambda j: implies(0 <= j < llen({INFO}), {c}))" for c in mode_facts(f"lget({INFO}, j)", LINE)]
           + [f"forall(lambda j: implies(0 <= j < llen({INFO}), {c}))" for c in all_daughters_done(f"lget({INFO}, j)", LINE)],
         raises={"DecayNotFound": NO_TABLE("mother")},
         defs=["has_table_def(self)"], opts={"entry_defined": True},
         ghost_on_return={"chain_mother": "mother", "chain_stable": S},
         loops={
             "loop#0": {"invariant": [
                 "typ(info, 'list') and isfresh(info) and llen(info) == _i",
                 "forall(lambda j: implies(0 <= j < _i, not same(lget(info, j), info) and not same(dget(lget(info, j), 'fs'), info) and not same(dget(lget(info, j), 'model_params'), info)))",
             ] + [f"forall(lambda j: implies(0 <= j < _i, {c}))" for c in mode_facts("lget(info, j)", "_seq[j]")]
               + [f"forall(lambda j: implies(0 <= j < _i, {c}))" for c in all_daughters_done("lget(info, j)", "_seq[j]")],
                 "types": {"info": "list"}},
             "loop#1": {"invariant": [
                 "typ(info, 'list') and isfresh(info)", "typ(d, 'dict') and isfresh(d) and not same(d, info)",
                 "not same(dget(d, 'fs'), info) and not same(dget(d, 'fs'), d) and not same(dget(d, 'fs'), dget(d, 'model_params'))",
             ] + mode_facts("d", "dm")
               + [f"forall(lambda p: implies(0 <= p < _i, {c}))" for c in daughter_done("dget(d, 'fs')", "dm", "p")]
               + ["forall(lambda p: implies(_i <= p < llen(dget(d, 'fs')), same(lget(dget(d, 'fs'), p), daughters(dm)[p].children[0].value)))",
                  "forall(lambda p: implies(0 <= p < llen(dget(d, 'fs')), same(_seq[p][1], daughters(dm)[p].children[0].value)))"],
                 "modifies": ["dget(d, 'fs')"], "types": {"d": "dict", "info": "list"}},
         },
         returns="dict", properties=["C09", "C08"])
