"""C17: decaylanguage.modeling.ampgentransform — the Lark Transformer callbacks that turn the statements of an AmpGen
options file into table rows, and the collector read_ampgen builds its tables from.

A callback receives `lines`, the list of the (already transformed) children of the statement.  The shapes in the
preconditions are those of ampgen.lark (`constant : particle SIGNED_NUMBER`, `variable : particle fix SIGNED_NUMBER
SIGNED_NUMBER`, `fix : SIGNED_NUMBER -> checkfixed`, `event_type : "EventType" particle particle+`, `particle : LABEL`);
that Lark hands a callback the children the grammar denotes is X-LARK.  lark.Token is a str subclass: `tok_text(t)` is the
text str(t) / float(t) / int(t) read."""
from pyvc.contracts import contract, klass
from decaylanguage.modeling.ampgentransform import AmpGenTransformer

P = "decaylanguage.modeling.ampgentransform."
klass("AmpGenTransformer", pycls=AmpGenTransformer, fields={})

PART = lambda e: (f"typ({e}, 'obj:Tree') and typ({e}.children, 'list') and llen({e}.children) == 1 "
                  f"and typ(lget({e}.children, 0), 'obj:Token')")
NAME = lambda e: f"tok_text(lget({e}.children, 0))"
NUM = lambda e: f"typ({e}, 'obj:Token') and float_ok(tok_text({e}))"

# ---- the flag column: AmpGen convention 0 = free ----------------------------------------------------------------------
contract(P + "AmpGenTransformer.checkfixed", types={"lines": "list"},
         requires=["llen(lines) == 1", "typ(lget(lines, 0), 'obj:Token')"],
         ensures=["typ(result, 'bool')", "result == (int(tok_text(lget(lines, 0))) > 0)"],
         # the grammar allows any SIGNED_NUMBER in the flag column; one that is not an integer literal is refused here
         raises={"ValueError": "not int_ok(tok_text(lget(lines, 0)))"},
         returns="bool", opts={"token_is_str": True}, properties=["C17"])

contract(P + "AmpGenTransformer.fixed", types={"lines": "any"}, requires=[], ensures=["result is False"],
         returns="bool", opts={"token_is_str": True}, properties=["C17"])
contract(P + "AmpGenTransformer.free", types={"lines": "any"}, requires=[], ensures=["result is True"],
         returns="bool", opts={"token_is_str": True}, properties=["C17"])

# ---- one row per constant line: (name, value) -----------------------------------------------------------------------------
contract(P + "AmpGenTransformer.constant", types={"lines": "list"},
         requires=["llen(lines) == 2", PART("lget(lines, 0)"), NUM("lget(lines, 1)")],
         ensures=["isfresh(result) and typ(result, 'obj:Tree')", "result.data == 'constant'",
                  "typ(result.children, 'list') and isfresh(result.children) and llen(result.children) == 2",
                  f"lget(result.children, 0) == {NAME('lget(lines, 0)')}",
                  "lget(result.children, 1) == float(tok_text(lget(lines, 1)))"],
         returns="obj:Tree", opts={"token_is_str": True}, properties=["C17"])

# ---- one row per parameter line: (name, fixed flag, value, error) -------------------------------------------------------------
contract(P + "AmpGenTransformer.variable", types={"lines": "list"},
         requires=["llen(lines) == 4", PART("lget(lines, 0)"), "typ(lget(lines, 1), 'bool')",
                   NUM("lget(lines, 2)"), NUM("lget(lines, 3)")],
         ensures=["isfresh(result) and typ(result, 'obj:Tree')", "result.data == 'variable'",
                  "typ(result.children, 'list') and isfresh(result.children) and llen(result.children) == 4",
                  f"lget(result.children, 0) == {NAME('lget(lines, 0)')}",
                  "same(lget(result.children, 1), lget(lines, 1))",
                  "lget(result.children, 2) == float(tok_text(lget(lines, 2)))",
                  "lget(result.children, 3) == float(tok_text(lget(lines, 3)))"],
         returns="obj:Tree", opts={"token_is_str": True}, properties=["C17"])

# ---- the event type: the particle names in the order written ----------------------------------------------------------------
contract(P + "AmpGenTransformer.event_type", types={"lines": "list"},
         requires=[f"forall(lambda j: implies(0 <= j < llen(lines), {PART('lget(lines, j)')}))"],
         ensures=["isfresh(result) and typ(result, 'obj:Tree')", "result.data == 'event_type'",
                  "typ(result.children, 'list') and isfresh(result.children) and llen(result.children) == llen(lines)",
                  f"forall(lambda j: implies(0 <= j < llen(lines), lget(result.children, j) == {NAME('lget(lines, j)')}))"],
         returns="obj:Tree", opts={"token_is_str": True}, properties=["C17"])

# ---- the collector: the rows of every statement of one kind, in file order ----------------------------------------------------
contract(P + "get_from_parser", types={"parser": "obj:Tree", "key": "str"},
         requires=[],
         ensures=["typ(result, 'list') and isfresh(result)", "llen(result) == len(stmts(parser, key))",
                  "forall(lambda j: implies(0 <= j < llen(result), same(lget(result, j), stmts(parser, key)[j].children)))"],
         returns="list", properties=["C17"])
