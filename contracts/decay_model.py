"""collections.Counter as seen by the contracts (assumed external contract X-STD): multiset semantics, insertion
order of first occurrences.  CNT(arr, n, x) = number of positions i < n with arr[i] == x (uninterpreted, with the
facts the contracts need)."""
import collections

import z3

from pyvc import smt
from pyvc.contracts import REG, external, klass, spec_function
from pyvc.engine import Unsupported
from pyvc.heap import TYP, class_id
from pyvc.models import kind_of
from pyvc.smt import VInt, VNone, Val, fresh, get_i, get_ref, is_int, is_ref, is_str
from pyvc.values import SV, SeqView, sv_bool, sv_int, sv_none, sv_ref
from decaylanguage.decay.decay import DaughtersDict, DecayChain, DecayMode

klass("DaughtersDict", pycls=DaughtersDict, kind="dict", dict_default=VInt(z3.IntVal(0)))
klass("DecayMode", pycls=DecayMode, slots=True, fields={"bf": None, "daughters": "obj:DaughtersDict", "metadata": "dict"})
klass("DecayChain", pycls=DecayChain, slots=True, fields={"mother": "str", "decays": "dict"})

CNT = z3.Function("count_in", smt.ArrIV, smt.I, Val, smt.I)


def cnt_facts(arr, n):
    x = z3.Const("cn_x", Val)
    i = z3.Int("cn_i")
    return [z3.ForAll([x], CNT(arr, n, x) >= 0, patterns=[CNT(arr, n, x)]),
            z3.ForAll([i], z3.Implies(z3.And(0 <= i, i < n), CNT(arr, n, z3.Select(arr, i)) >= 1), patterns=[z3.Select(arr, i)]),
            z3.ForAll([x], z3.Implies(CNT(arr, n, x) >= 1, z3.Exists([i], z3.And(0 <= i, i < n, z3.Select(arr, i) == x))),
                      patterns=[CNT(arr, n, x)])]


@external("collections.Counter.__init__",
          assumption="X-STD: Counter(mapping) copies the mapping (order kept), Counter(iterable) counts its elements "
                     "(keys in order of first occurrence), Counter(None) is empty")
def counter_init(eng, s, args, kwargs):
    self = args[0]
    it = args[1] if len(args) > 1 else sv_none()
    kw = kwargs.get("**")
    if kw is not None:
        kw = eng.as_val(s, kw)
        if not smt.is_true(s.heap.dlen(kw.ref) == 0):
            eng.oblige(f"{eng.qual}.call.Counter.__init__.no_kwargs@L{eng.cur_line}", s, s.heap.dlen(kw.ref) == 0, "call-pre")
    if len([k for k in kwargs if k != "**"]):
        raise Unsupported("Counter(**kwds)")
    it = eng.as_val(s, it)
    out = []
    if it.ty is None:
        rest = s
        for ty in ("none", "list", "tuple", "dict", "str"):
            if rest is None:
                break
            yes, rest = eng.branch(rest, eng.ty_cond(it, ty))
            if yes is not None:
                a2 = [args[0], eng.with_ty(yes, it, ty)]
                out += counter_init(eng, yes, a2, kwargs)
        if rest is not None:
            raise Unsupported("Counter(iterable of unknown type)")
        return out
    if it.ty == "str":
        # only reached for the empty string (non-empty strings are split by the caller): checked
        eng.oblige(f"{eng.qual}.call.Counter.__init__.str_is_empty@L{eng.cur_line}", s, z3.Length(smt.get_s(it.t)) == 0, "call-pre")
        return [(sv_none(), s)]
    k = kind_of(eng, it)
    h = s.heap
    eng.check_write(s, self.ref, "dict")
    if it.ty == "none":
        return [(sv_none(), s)]
    if k == "dict":
        hh = h.copy()
        for kind in ("dlen", "dkeys", "dhas", "didx", "dval"):
            hh._put(kind, self.ref, h._get(kind, it.ref))
        s.heap = hh
        return [(sv_none(), s)]
    if k in ("list", "tuple"):
        n, arr = h.llen(it.ref), h.lelems(it.ref)
        hh, d = h.fresh_dict_at(self.ref, "cntr")
        s.heap = hh
        kk = z3.Const("ctr_k", Val)
        first = z3.Function(smt.fresh_name("ctr_first"), Val, smt.I)
        k2 = z3.Const("ctr_k2", Val)
        s.assume(*d.wf())
        s.assume(*cnt_facts(arr, n))
        s.assume(d.n <= n, n >= 0,
                 z3.ForAll([kk], d.has(kk) == (CNT(arr, n, kk) >= 1), patterns=[d.has(kk)]),
                 z3.ForAll([kk], z3.Implies(d.has(kk), d.val(kk) == VInt(CNT(arr, n, kk))), patterns=[d.val(kk)]))
        return [(sv_none(), s)]
    raise Unsupported(f"Counter({it.ty})")


ELEMS_N = z3.Function("counter_elements_n", smt.ArrIV, smt.ArrVV, smt.I, smt.I)
ELEMS = z3.Function("counter_elements", smt.ArrIV, smt.ArrVV, smt.I, smt.ArrIV)


def elements_view(eng, s, ref):
    h = s.heap
    s.assume(*h.dict_wf(ref))
    keys, vals, n = h.dkeys(ref), h._get("dval", ref), h.dlen(ref)
    m = ELEMS_N(keys, vals, n)
    arr = ELEMS(keys, vals, n)
    x = z3.Const("el_x", Val)
    i = z3.Int("el_i")
    s.assume(m >= 0, *cnt_facts(arr, m))
    # an element occurs as often as its (positive) count; nothing else occurs
    s.assume(z3.ForAll([x], CNT(arr, m, x) == z3.If(z3.And(h.dhas(ref, x), get_i(z3.Select(vals, x)) > 0), get_i(z3.Select(vals, x)), 0),
                       patterns=[CNT(arr, m, x)]))
    return SeqView(m, arr, "str")


@external("collections.Counter.elements", assumption="X-STD: Counter.elements() repeats each key as often as its positive count")
def counter_elements(eng, s, args, kwargs):
    return [(elements_view(eng, s, args[0].ref), s)]


@spec_function()
def cnt(eng, st, d, name):
    """multiplicity of name in the final state d (0 when absent)"""
    h = st.heap
    r = get_ref(eng.as_val(st, d).t)
    k = eng.as_val(st, name).t
    return sv_int(z3.If(h.dhas(r, k), get_i(h.dget(r, k)), 0))


@spec_function()
def is_final_state(eng, st, d):
    """d is a DaughtersDict whose keys are str and whose counts are positive ints"""
    h = st.heap
    v = eng.as_val(st, d)
    r = get_ref(v.t)
    k = z3.Const("fs_k", Val)
    st.assume(*h.dict_wf(r))
    return sv_bool(z3.And(is_ref(v.t), TYP(r) == class_id("DaughtersDict"),
                          z3.ForAll([k], z3.Implies(h.dhas(r, k), z3.And(is_str(k), is_int(h.dget(r, k)), get_i(h.dget(r, k)) > 0)),
                                    patterns=[h.dhas(r, k)])))


@spec_function()
def count_of(eng, st, seq, x):
    """number of occurrences of x in the list / tuple seq"""
    h = st.heap
    r = get_ref(eng.as_val(st, seq).t)
    from contracts.base import TOUCH, _mentions_bound
    if not _mentions_bound(r):
        st.assume(TOUCH(h.lelems(r)))       # the row as a ground term (see base.lget)
    return sv_int(CNT(h.lelems(r), h.llen(r), eng.as_val(st, x).t))
