"""copy.deepcopy as seen by the contracts (assumed external contract X-COPY): an isomorphic structure all of whose
nodes are newly allocated.  DC(new, old) relates a copy to its source; unfolding axioms (over the heap right after
the copy) give the copy's contents level by level for the object kinds that occur in the code under contract:
lists, dicts with str keys, lark Trees and Tokens, and immutable values (shared)."""
import z3

from pyvc import smt
from pyvc.contracts import REG, external, spec_function
from pyvc.engine import Unsupported
from pyvc.heap import ARR_KINDS, TYP, class_id
from pyvc.smt import VRef, Val, fresh, get_ref, is_ref
from pyvc.values import SV, sv_bool, sv_ref

DC = z3.Function("deepcopy_of", smt.I, smt.I, smt.B)      # DC(new, old)
CP_LO = z3.Function("copy_lo", smt.I, smt.I)     # the allocation interval [lo, hi) of the deepcopy call that returned this root
CP_HI = z3.Function("copy_hi", smt.I, smt.I)
REACH = z3.Function("reachable_node", smt.I, smt.I, smt.B)  # REACH(root, r): r is a mutable node of the structure rooted at root


def dc_axioms(h, base, top):
    """h: heap after the copy; copies live in [base, top)"""
    a, b, i = z3.Ints("dc_a dc_b dc_i")
    k = z3.Const("dc_k", Val)
    T = lambda n: class_id(n)
    # dict subclasses (DaughtersDict, ...) are copied like dicts
    is_dict = lambda r: z3.Or([TYP(r) == class_id(c) for c in REG.subclasses_of("dict")])
    f = lambda name, r: z3.Select(h.field_arr(name), r)
    new = z3.And(base <= a, a < top)
    ax = []
    # DC is ONE relation for all deepcopy calls of a path: every axiom below speaks about the pairs of THIS call only
    # (copy in [base, top)).  Unscoped, the axioms of a second call would put the copies of the first into the second
    # interval and re-assert "copy equals source" for copies the program has modified since: an inconsistent path
    # condition, i.e. vacuous proofs for every iteration but the first (found when reviewing the model; the obligations
    # of the functions that copy were re-discharged after the repair).
    # every copy is a new object of the same class; sources existed before
    ax.append(z3.ForAll([a, b], z3.Implies(z3.And(DC(a, b), new), z3.And(b < base, b >= 0, TYP(a) == TYP(b))), patterns=[DC(a, b)]))
    # distinct sources have distinct copies within one deepcopy call (memo) — and one source one copy
    c, d = z3.Ints("dc_c dc_d")
    ax.append(z3.ForAll([a, b, c, d], z3.Implies(z3.And(DC(a, b), DC(c, d), new, base <= c, c < top), (a == c) == (b == d)),
                        patterns=[z3.MultiPattern(DC(a, b), DC(c, d))]))

    def val_copy(vn, vo):
        # a stored value is copied: references to mutable objects by DC, everything else is shared
        return z3.If(is_ref(vo), z3.And(is_ref(vn), DC(get_ref(vn), get_ref(vo)), base <= get_ref(vn), get_ref(vn) < top), vn == vo)
    # lists / tuples
    for kind in ("list", "tuple"):
        ax.append(z3.ForAll([a, b], z3.Implies(z3.And(DC(a, b), new, TYP(b) == T(kind)),
                                               z3.And(h.llen(a) == h.llen(b), h.llen(b) >= 0)), patterns=[DC(a, b)]))
    ax.append(z3.ForAll([a, b, i], z3.Implies(z3.And(DC(a, b), new, z3.Or(TYP(b) == T("list"), TYP(b) == T("tuple")), 0 <= i, i < h.llen(b)),
                                              val_copy(h.lget(a, i), h.lget(b, i))),
                        patterns=[z3.MultiPattern(DC(a, b), h.lget(a, i)), z3.MultiPattern(DC(a, b), h.lget(b, i))]))
    # ... so an immutable value occurs in the copy of a list as often as in the list
    from contracts.decay_model import CNT
    xv = z3.Const("dc_x", Val)
    ax.append(z3.ForAll([a, b, xv], z3.Implies(z3.And(DC(a, b), new, z3.Or(TYP(b) == T("list"), TYP(b) == T("tuple")), z3.Not(is_ref(xv))),
                                               CNT(h.lelems(a), h.llen(a), xv) == CNT(h.lelems(b), h.llen(b), xv)),
                        patterns=[z3.MultiPattern(DC(a, b), CNT(h.lelems(a), h.llen(a), xv))]))
    # Tree / Token
    ax.append(z3.ForAll([a, b], z3.Implies(z3.And(DC(a, b), new, TYP(b) == T("Tree")),
                                           z3.And(f("data", a) == f("data", b), val_copy(f("children", a), f("children", b)))),
                        patterns=[DC(a, b)]))
    ax.append(z3.ForAll([a, b], z3.Implies(z3.And(DC(a, b), new, TYP(b) == T("Token")),
                                           z3.And(f("type", a) == f("type", b), f("value", a) == f("value", b))),
                        patterns=[DC(a, b)]))
    # dicts: same keys in the same order, values copied
    ax.append(z3.ForAll([a, b], z3.Implies(z3.And(DC(a, b), new, is_dict(b)),
                                           z3.And(h.dlen(a) == h.dlen(b), h.dkeys(a) == h.dkeys(b),
                                                  z3.Select(h.arr["dhas"], a) == z3.Select(h.arr["dhas"], b),
                                                  z3.Select(h.arr["didx"], a) == z3.Select(h.arr["didx"], b))),
                        patterns=[DC(a, b)]))
    ax.append(z3.ForAll([a, b, k], z3.Implies(z3.And(DC(a, b), new, is_dict(b), h.dhas(b, k)), val_copy(h.dget(a, k), h.dget(b, k))),
                        patterns=[z3.MultiPattern(DC(a, b), h.dget(a, k)), z3.MultiPattern(DC(a, b), h.dget(b, k))]))
    return ax


@external("copy.deepcopy",
          assumption="X-COPY: copy.deepcopy(x) returns a structure isomorphic to x all of whose mutable nodes (lists, dicts, "
                     "lark Trees/Tokens) are newly allocated; immutable values are shared; x is not modified")
def deepcopy(eng, s, args, kwargs):
    if len(args) != 1 or kwargs:
        # an explicit memo shares copies between calls: outside X-COPY, undecided rather than modelled wrongly
        from pyvc.engine import Unsupported
        raise Unsupported("copy.deepcopy with an explicit memo")
    (x,) = args
    x = eng.as_val(s, x)
    if x.ty in ("none", "bool", "int", "float", "str"):
        return [(x, s)]
    # deepcopy writes nothing that exists: the heap arrays are kept; the copies live in the cells [base, top) that
    # nothing has constrained so far (closedness facts only speak about live cells)
    old = s.heap
    for fn in ("data", "children", "type", "value"):
        old.field_arr(fn)
    new = old.copy()
    base = old.alloc
    new.alloc = fresh("dcp_alloc", smt.I)
    s.assume(new.alloc > base)
    s.heap = new
    s.assume(*dc_axioms(new, base, new.alloc))
    # what the copies contain is allocated (they only contain copies and shared immutable values)
    a, b, i = z3.Ints("dcl_a dcl_b dcl_i")
    v = new.lget(a, i)
    s.assume(z3.ForAll([a, i], z3.Implies(z3.And(base <= a, a < new.alloc, is_ref(v)), z3.And(get_ref(v) >= 0, get_ref(v) < new.alloc)),
                       patterns=[v]))
    # the copy of the root is the first object of the interval (which of the new objects is allocated first is not
    # observable): its reference is a concrete allocation key
    res = VRef(base) if x.ty is not None or smt.is_true(is_ref(x.t)) else fresh("deepcopy", Val)
    # everything reachable from a deep copy is part of the copy (immutable values apart)
    rr = z3.Int("dcr_r")
    s.assume(z3.ForAll([rr], z3.Implies(REACH(get_ref(res), rr), z3.And(base <= rr, rr < new.alloc)), patterns=[REACH(get_ref(res), rr)]))
    here = z3.And(base <= get_ref(res), get_ref(res) < new.alloc, CP_LO(get_ref(res)) == base, CP_HI(get_ref(res)) == new.alloc)
    if x.ty is None:
        s.assume(z3.If(is_ref(x.t), z3.And(is_ref(res), DC(get_ref(res), get_ref(x.t)), here), res == x.t))
        return [(SV(res, None), s)]
    s.assume(is_ref(res), DC(get_ref(res), x.ref), here)
    return [(SV(res, x.ty), s)]


@spec_function()
def deepcopy_of(eng, st, new, old):
    n, o = eng.as_val(st, new), eng.as_val(st, old)
    return sv_bool(z3.And(is_ref(n.t), is_ref(o.t), DC(get_ref(n.t), get_ref(o.t))))


@spec_function()
def copied_from(eng, st, new, old):
    """new was produced by copy.deepcopy(old): an isomorphic structure of new objects (X-COPY)"""
    n, o = eng.as_val(st, new), eng.as_val(st, old)
    return sv_bool(z3.And(is_ref(n.t), is_ref(o.t), DC(get_ref(n.t), get_ref(o.t))))


# ---- reachability of the mutable nodes of a structure (used for frames of tree visitors) ------------------------
@spec_function()
def reach_fresh(eng, st, root):
    """every mutable node of the structure rooted at `root` was allocated during this call (a private copy)"""
    r = z3.Int("rf_r")
    v = eng.as_val(st, root)
    return sv_bool(z3.ForAll([r], z3.Implies(REACH(get_ref(v.t), r), z3.And(r >= eng.entry_alloc, r < st.heap.alloc)),
                             patterns=[REACH(get_ref(v.t), r)]))


@spec_function()
def reach_below(eng, st, root, node):
    """every mutable node of the structure rooted at `root` was allocated before `node` (two private copies made one
    after the other do not overlap)"""
    r = z3.Int("rb_r")
    v, n = eng.as_val(st, root), eng.as_val(st, node)
    return sv_bool(z3.ForAll([r], z3.Implies(REACH(get_ref(v.t), r), r < get_ref(n.t)), patterns=[REACH(get_ref(v.t), r)]))


@spec_function()
def copy_lo(eng, st, root):
    from pyvc.values import sv_int
    return sv_int(CP_LO(get_ref(eng.as_val(st, root).t)))


@spec_function()
def copy_hi(eng, st, root):
    from pyvc.values import sv_int
    return sv_int(CP_HI(get_ref(eng.as_val(st, root).t)))


@spec_function()
def reach_within(eng, st, root):
    """every mutable node of the copy rooted at `root` lies in the allocation interval of the call that made it"""
    r = z3.Int("rw_r")
    x = get_ref(eng.as_val(st, root).t)
    return sv_bool(z3.ForAll([r], z3.Implies(REACH(x, r), z3.And(CP_LO(x) <= r, r < CP_HI(x))), patterns=[REACH(x, r)]))


@spec_function()
def heap_alloc(eng, st):
    """the allocation counter of the current state (everything allocated so far lies below it)"""
    from pyvc.values import sv_int
    return sv_int(st.heap.alloc)


@spec_function()
def fresh_objects(eng, st):
    """frame: every object allocated since the function was entered (always writable for the function; named as a loop
    frame when a later loop updates objects an earlier loop of the same call made)"""
    from pyvc.values import RefSet
    return RefSet(lambda r: r >= eng.entry_alloc)
