"""The `particle` package as seen by the contracts (assumed external contracts X-PART): deterministic look-ups in
immutable tables, modelled by uninterpreted functions of the key.  Table CONTENTS are never assumed: where a
property quantifies over the tables (C04, C11) they are enumerated exhaustively by the bounded part of the check."""
import z3
from particle import Particle, ParticleNotFound
from particle.converters import EvtGen2PDGNameMap, EvtGenName2PDGIDBiMap, PDG2EvtGenNameMap
from particle.converters.bimap import BiMap, DirectionalMap
from particle.exceptions import MatchingIDNotFound

from pyvc import smt
from pyvc.contracts import REG, contract, external, klass, spec_function
from pyvc.engine import Unsupported
from pyvc.smt import VInt, VStr, get_i, get_ref, get_s, is_int, is_str
from pyvc.values import SV, PyConst, sv_bool, sv_int, sv_ref, sv_str

from contracts.base import CCNAME

klass("Particle", pycls=Particle, fields={"_from_evtgen": None, "_inverse_of": None})

PFE_OK = z3.Function("particle_from_evtgen_ok", smt.S, smt.B)          # Particle.from_evtgen_name(s) succeeds
INV_OK = z3.Function("particle_invert_name_ok", smt.S, smt.B)          # .invert().evtgen_name succeeds
INV_NAME = z3.Function("particle_invert_name", smt.S, smt.S)
SELFCONJ = z3.Function("particle_is_self_conjugate", smt.S, smt.B)
WIDTH = z3.Function("particle_width", smt.S, smt.R)
BM_HAS = z3.Function("bimap_has_name", smt.S, smt.B)
BM_ID = z3.Function("bimap_id", smt.S, smt.I)
BM_HASID = z3.Function("bimap_has_id", smt.I, smt.B)
BM_NAME = z3.Function("bimap_name", smt.I, smt.S)
P2E_HAS = z3.Function("pdg2evtgen_has", smt.S, smt.B)
P2E = z3.Function("pdg2evtgen", smt.S, smt.S)
E2P_HAS = z3.Function("evtgen2pdg_has", smt.S, smt.B)
E2P = z3.Function("evtgen2pdg", smt.S, smt.S)


@external("particle.particle.particle.Particle.from_evtgen_name",
          assumption="X-PART: Particle.from_evtgen_name(n) returns the table entry of n or raises ParticleNotFound; deterministic")
def from_evtgen_name(eng, s, args, kwargs):
    name = eng.as_val(s, args[-1])
    if name.ty is None:
        name = eng.with_ty(s, name, "str")
    ok, bad = (s, None) if eng.spec else eng.branch(s, PFE_OK(get_s(name.t)))
    if bad is not None:
        eng.raise_exc(bad, ParticleNotFound)
    if ok is None:
        return []
    ref = eng.alloc(ok, "Particle")
    ok.heap = ok.heap.set_field(ref, "_from_evtgen", name.t)
    ok.heap = ok.heap.set_field(ref, "_inverse_of", smt.VNone)
    return [(sv_ref(ref, "obj:Particle"), ok)]


@external("particle.particle.particle.Particle.invert", assumption="X-PART: p.invert() is the table entry with the negated ID")
def invert(eng, s, args, kwargs):
    p = args[0]
    ref = eng.alloc(s, "Particle")
    s.heap = s.heap.set_field(ref, "_from_evtgen", smt.VNone)
    s.heap = s.heap.set_field(ref, "_inverse_of", s.heap.get_field(p.ref, "_from_evtgen"))
    return [(sv_ref(ref, "obj:Particle"), s)]


def particle_attr(eng, p, name, s):
    h = s.heap
    src = h.get_field(p.ref, "_from_evtgen")
    inv = h.get_field(p.ref, "_inverse_of")
    if name == "evtgen_name":
        is_inv = is_str(inv)
        a, b = eng.branch(s, is_inv)
        out = []
        if a is not None:
            ok, bad = eng.branch(a, INV_OK(get_s(inv)))
            if bad is not None:
                eng.raise_exc(bad, ParticleNotFound)
            if ok is not None:
                out.append((sv_str(INV_NAME(get_s(inv))), ok))
        if b is not None:
            out.append((SV(src, "str"), b))
        return out
    if name == "is_self_conjugate":
        return [(sv_bool(SELFCONJ(get_s(src))), s)]
    if name == "width":
        return [(SV(smt.VReal(WIDTH(get_s(src))), "float"), s)]
    raise Unsupported(f"Particle.{name}")


REG.particle_attr = particle_attr


def _map_getitem(has, val, key_is_str=True, result="str"):
    def model(eng, v, k, s):
        k = eng.as_val(s, k)
        if key_is_str:
            if k.ty is None:
                k = eng.with_ty(s, k, "str")
            kt = get_s(k.t)
        else:
            kt = get_i(k.t)
        if eng.spec:
            return [(sv_str(val(kt)) if result == "str" else sv_int(val(kt)), s)]
        ok, bad = eng.branch(s, has(kt))
        if bad is not None:
            eng.raise_exc(bad, MatchingIDNotFound)
        if ok is None:
            return []
        return [(sv_str(val(kt)) if result == "str" else sv_int(val(kt)), ok)]
    return model


def _bimap_getitem(eng, v, k, s):
    k = eng.as_val(s, k)
    if k.ty == "str":
        return _map_getitem(BM_HAS, BM_ID, True, "int")(eng, v, k, s)
    if k.ty == "int":
        return _map_getitem(BM_HASID, BM_NAME, False, "str")(eng, v, k, s)
    raise Unsupported("bi-map key of unknown type")


REG.const_getitems.append((lambda o: o is EvtGenName2PDGIDBiMap, _bimap_getitem))
REG.const_getitems.append((lambda o: o is PDG2EvtGenNameMap, _map_getitem(P2E_HAS, P2E)))
REG.const_getitems.append((lambda o: o is EvtGen2PDGNameMap, _map_getitem(E2P_HAS, E2P)))
REG.assumptions["particle.converters"] = ("X-PART: EvtGenName2PDGIDBiMap / PDG2EvtGenNameMap / EvtGen2PDGNameMap are immutable maps "
                                          "raising MatchingIDNotFound for a missing key")


def _cc_evtgen(n):
    """the EvtGen route, written from the docstring/property: data-base inversion, then ID negation, then the marker"""
    marker = z3.Concat(z3.StringVal("ChargeConj("), n, z3.StringVal(")"))
    return z3.If(z3.And(PFE_OK(n), INV_OK(n)), INV_NAME(n),
                 z3.If(z3.And(BM_HAS(n), BM_HASID(-BM_ID(n))), BM_NAME(-BM_ID(n)), marker))


@spec_function()
def ccname_def(eng, st, name):
    """definition of the spec function ccname(.,.) through the assumed table look-ups"""
    n = get_s(eng.as_val(st, name).t)
    x = z3.String("cc_x")
    marker = lambda y: z3.Concat(z3.StringVal("ChargeConj("), y, z3.StringVal(")"))
    e = P2E(x)
    pdg = z3.If(z3.And(P2E_HAS(x), E2P_HAS(_cc_evtgen(e))), E2P(_cc_evtgen(e)), marker(x))
    return sv_bool(z3.And(z3.ForAll([x], CCNAME(x, z3.BoolVal(False)) == _cc_evtgen(x), patterns=[CCNAME(x, z3.BoolVal(False))]),
                          z3.ForAll([x], CCNAME(x, z3.BoolVal(True)) == pdg, patterns=[CCNAME(x, z3.BoolVal(True))])))
