"""C03 / C05: the three tree rewriters of dec.py (Lark Visitor / Transformer callbacks)."""
from pyvc.contracts import contract, klass
from decaylanguage.dec.dec import (ChargeConjugateReplacement, DecayModelAliasReplacement,
                                   DecayModelParamValueReplacement)

P = "decaylanguage.dec.dec."
klass("ChargeConjugateReplacement", pycls=ChargeConjugateReplacement, fields={"charge_conj_defs": "dict"})
klass("DecayModelParamValueReplacement", pycls=DecayModelParamValueReplacement, fields={"define_defs": "dict"})
klass("DecayModelAliasReplacement", pycls=DecayModelAliasReplacement, fields={"define_defs": "dict"})

D = "self.charge_conj_defs"
TOK = "tree.children[0]"
contract(P + "ChargeConjugateReplacement.particle", types={"tree": "obj:Tree"},
         requires=["wf_resolved(tree, 'particle')", f"is_dict_str_str({D})", f"not same({D}, tree.children)"],
         ensures=[
             # the name is replaced by its conjugate under the ChargeConj table (either direction), else the data base
             f"implies(old(dhas({D}, {TOK}.value)), same({TOK}.value, old(dget({D}, {TOK}.value))))",
             f"implies(old(not dhas({D}, {TOK}.value)) and old(exists(lambda j: 0 <= j < dlen({D}) and value_at({D}, j) == {TOK}.value)),"
             f"        exists(lambda j: 0 <= j < old(dlen({D})) and old(value_at({D}, j)) == old({TOK}.value) and same({TOK}.value, old(key_at({D}, j)))"
             f"                         and forall(lambda l: implies(0 <= l < j, old(value_at({D}, l)) != old({TOK}.value)))))",
             f"implies(old(not dhas({D}, {TOK}.value)) and old(forall(lambda j: implies(0 <= j < dlen({D}), value_at({D}, j) != {TOK}.value))),"
             f"        {TOK}.value == ccname(old({TOK}.value)))",
             "typ(tree.children[0].value, 'str')",
             # the answer is remembered; nothing else in the table changes
             f"dhas({D}, old({TOK}.value)) and same(dget({D}, old({TOK}.value)), {TOK}.value)",
             f"forallv(lambda k: implies(k != old({TOK}.value), dhas({D}, k) == old(dhas({D}, k)) and dget({D}, k) == old(dget({D}, k))))",
             f"is_dict_str_str({D})",
         ],
         modifies=["tree.children[0]", D], modifies_fields=["value"],
         returns="none", properties=["C03", "C04"])

# ---- Define'd parameter values (C05, C01) --------------------------------------------------------------------
DEFS = "self.define_defs"
contract(P + "DecayModelParamValueReplacement._replacement", types={"t": "obj:Tree|obj:Token"},
         requires=["raw_option_child(t)", f"is_dict_str_float({DEFS})"],
         ensures=[
             # a numeric literal becomes the float it denotes
             "implies(typ(t, 'obj:Tree'), lget(t.children, 0).value == old(float(lget(t.children, 0).value)) and typ(lget(t.children, 0).value, 'float'))",
             # a word that is a Define'd name becomes its value, negated when written with a leading minus sign
             f"implies(typ(t, 'obj:Token') and not old(str_starts_minus(t.value)) and old(dhas({DEFS}, t.value)), t.value == old(dget({DEFS}, t.value)) and typ(t.value, 'float'))",
             f"implies(typ(t, 'obj:Token') and old(str_starts_minus(t.value)) and old(dhas({DEFS}, str_tail(t.value))), t.value == -old(dget({DEFS}, str_tail(t.value))) and typ(t.value, 'float'))",
             # any other word stays verbatim
             f"implies(typ(t, 'obj:Token') and not old(str_starts_minus(t.value)) and not old(dhas({DEFS}, t.value)), same(t.value, old(t.value)))",
             f"implies(typ(t, 'obj:Token') and old(str_starts_minus(t.value)) and not old(dhas({DEFS}, str_tail(t.value))), same(t.value, old(t.value)))",
             "resolved_option_child(t)",
         ],
         modifies=["option_token(t)"], modifies_fields=["value"],
         returns="none", properties=["C05", "C01"])

OC = "tree.children"
contract(P + "DecayModelParamValueReplacement.model_options", types={"tree": "obj:Tree"},
         requires=["tree.data == 'model_options'", f"typ({OC}, 'list')",
                   f"forall(lambda j: implies(0 <= j < llen({OC}), raw_option_child(lget({OC}, j))))",
                   # every parameter token occurs once: no token (object) is shared between two positions
                   f"forall(lambda j, k: implies(0 <= j < k < llen({OC}), not same(option_token(lget({OC}, j)), option_token(lget({OC}, k)))))",
                   f"is_dict_str_float({DEFS})"],
         ensures=[
             f"same({OC}, old({OC})) and llen({OC}) == old(llen({OC}))",
             f"forall(lambda j: implies(0 <= j < llen({OC}), same(lget({OC}, j), old(lget({OC}, j))) and resolved_option_child(lget({OC}, j))))",
             # every parameter: literal -> float, Define'd word -> value (negated with a leading minus), other words verbatim
             f"forall(lambda j: implies(0 <= j < llen({OC}), option_value(lget({OC}, j)) == resolve_word(old(option_value(lget({OC}, j))), old(typ(lget({OC}, j), 'obj:Tree')), {DEFS})))",
         ],
         loops={"loop#0": {"invariant": [
             f"forall(lambda j: implies(0 <= j < _i, resolved_option_child(lget({OC}, j)) and option_value(lget({OC}, j)) == resolve_word(old(option_value(lget({OC}, j))), old(typ(lget({OC}, j), 'obj:Tree')), {DEFS})))",
             f"forall(lambda j: implies(_i <= j < llen({OC}), raw_option_child(lget({OC}, j)) and same(option_value(lget({OC}, j)), old(option_value(lget({OC}, j))))))",
             f"forall(lambda j: implies(0 <= j < llen({OC}), same(option_token(lget({OC}, j)), old(option_token(lget({OC}, j))))))",
         ], "modifies": ["option_tokens(tree)"], "modifies_fields": ["value"]}},
         modifies=["option_tokens(tree)"], modifies_fields=["value"],
         returns="none", properties=["C05", "C01"])

# ---- ModelAlias expansion (C05, C06) ---------------------------------------------------------------------------
ADEFS = "self.define_defs"
ALIAS_TABLE = f"forallv(lambda k: implies(dhas({ADEFS}, k), typ(dget({ADEFS}, k), 'list')))"
contract(P + "DecayModelAliasReplacement._replacement", types={"t": "obj:Token"},
         requires=[f"typ({ADEFS}, 'dict')", ALIAS_TABLE],
         ensures=[
             # the definition the label stands for — as a copy of its own for this use (nothing shared between uses)
             f"deepcopy_of(result, old(dget({ADEFS}, t.value)))", "isfresh(result)",
         ],
         # a model word that is neither a known model (it would be a MODEL_NAME token) nor a defined alias is an error
         raises={"ValueError": f"not dhas({ADEFS}, t.value)"},
         properties=["C05", "C06"])

contract(P + "DecayModelAliasReplacement.model", types={"treelist": "list"},
         requires=[f"typ({ADEFS}, 'dict')", ALIAS_TABLE, "llen(treelist) >= 1",
                   "typ(lget(treelist, 0), 'obj:Tree', 'obj:Token')",
                   "implies(typ(lget(treelist, 0), 'obj:Tree'), lget(treelist, 0).data == 'model_label' and "
                   "        typ(lget(treelist, 0).children, 'list') and llen(lget(treelist, 0).children) >= 1 and "
                   "        typ(lget(lget(treelist, 0).children, 0), 'obj:Token'))"],
         ensures=[
             "isfresh(result)", "result.data == 'model'",
             # a plain model keeps its children; an alias is replaced by (a private copy of) what it stands for
             "implies(typ(lget(treelist, 0), 'obj:Token'), same(result.children, treelist))",
             f"implies(typ(lget(treelist, 0), 'obj:Tree'), deepcopy_of(result.children, old(dget({ADEFS}, lget(lget(treelist, 0).children, 0).value))) and isfresh(result.children))",
         ],
         raises={"ValueError": f"typ(lget(treelist, 0), 'obj:Tree') and not dhas({ADEFS}, lget(lget(treelist, 0).children, 0).value)"},
         returns="obj:Tree", properties=["C05", "C06"])

contract(P + "ChargeConjugateReplacement.__init__", types={"charge_conj_defs": "dict|none"},
         ensures=["typ(self.charge_conj_defs, 'dict')",
                  "implies(charge_conj_defs is not None and dlen(charge_conj_defs) > 0, same(self.charge_conj_defs, charge_conj_defs))",
                  "implies(charge_conj_defs is None or dlen(charge_conj_defs) == 0, isfresh(self.charge_conj_defs) and dlen(self.charge_conj_defs) == 0)"],
         modifies=["self"], modifies_fields=["charge_conj_defs"], returns="none", properties=["C03"])
