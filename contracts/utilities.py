"""C14 (and the formatting half of C10/C13): decaylanguage.utils.utilities.DescriptorFormat.

Abstract state: the class attribute `config` (replaced, never mutated in place), per object
`new_config`, `old_config`, `_saved_configs` (stack of the formats in force at each entry).
"""
import string

import z3

from pyvc import smt
from pyvc.builtins_model import View
from pyvc.contracts import REG, constructor, contract, external, klass, spec_function
from pyvc.heap import TYP, class_id
from pyvc.models import CLASS_OBJ
from pyvc.smt import VNone, VRef, VStr, Val, get_ref, get_s, is_ref, is_str
from pyvc.values import SV, PyConst, SeqView, sv_bool, sv_ref, sv_str
from decaylanguage.utils.utilities import DescriptorFormat

klass("DescriptorFormat", pycls=DescriptorFormat,
      fields={"new_config": "dict", "old_config": "dict", "_saved_configs": "list"},
      class_vars={"config": "dict"})

FP_N = z3.Function("fmt_parse_n", smt.S, smt.I)
FP_FIELD = z3.Function("fmt_parse_field", smt.S, smt.I, Val)      # field name of the i-th chunk: VStr or VNone


@spec_function()
def classobj(eng, st, name):
    return sv_ref(CLASS_OBJ(name.s.as_string() if hasattr(name, "s") else name), "obj:" + str(name))


@spec_function()
def cls_config(eng, st):
    """the format in force: DescriptorFormat.config"""
    return SV(st.heap.get_field(CLASS_OBJ("DescriptorFormat"), "config"), "dict")


VALIDP = z3.Function("valid_pattern", smt.S, smt.B)


@spec_function()
def valid_pattern(eng, st, p):
    """the replacement fields of p are exactly {mother, daughters}"""
    return sv_bool(VALIDP(get_s(eng.as_val(st, p).t)))


@spec_function()
def valid_pattern_def(eng, st, p):
    """definition of valid_pattern through string.Formatter().parse (X-STD): the set of str field names is {mother, daughters}"""
    s = get_s(eng.as_val(st, p).t)
    i = z3.Int("vp_i")
    m, d = VStr(z3.StringVal("mother")), VStr(z3.StringVal("daughters"))
    f = lambda x: FP_FIELD(s, x)
    inr = z3.And(0 <= i, i < FP_N(s))
    return sv_bool(VALIDP(s) == z3.And(
        z3.ForAll([i], z3.Implies(z3.And(inr, is_str(f(i))), z3.Or(f(i) == m, f(i) == d)), patterns=[f(i)]),
        z3.Exists([i], z3.And(inr, f(i) == m)), z3.Exists([i], z3.And(inr, f(i) == d))))


@spec_function()
def is_cfg(eng, st, d, a, b):
    """d is a dict with exactly the entries decay_pattern -> a, sub_decay_pattern -> b (in this order)"""
    v = eng.as_val(st, d)
    r = get_ref(v.t)
    h = st.heap
    ka, kb = VStr(z3.StringVal("decay_pattern")), VStr(z3.StringVal("sub_decay_pattern"))
    st.assume(*h.dict_wf(r))
    return sv_bool(z3.And(is_ref(v.t), TYP(r) == class_id("dict"), h.dlen(r) == 2,
                          z3.Select(h.dkeys(r), 0) == ka, z3.Select(h.dkeys(r), 1) == kb,
                          h.dhas(r, ka), h.dhas(r, kb),
                          h.dget(r, ka) == eng.as_val(st, a).t, h.dget(r, kb) == eng.as_val(st, b).t))


@spec_function()
def cfg_top(eng, st, d):
    return SV(st.heap.dget(get_ref(eng.as_val(st, d).t), VStr(z3.StringVal("decay_pattern"))), None)


@spec_function()
def cfg_sub(eng, st, d):
    return SV(st.heap.dget(get_ref(eng.as_val(st, d).t), VStr(z3.StringVal("sub_decay_pattern"))), None)


@spec_function()
def wf_cfg(eng, st, d):
    """d is a two-entry format dict whose patterns are str"""
    top = cfg_top(eng, st, d)
    sub = cfg_sub(eng, st, d)
    return sv_bool(z3.And(eng.truth(st, is_cfg(eng, st, d, top, sub)), is_str(top.t), is_str(sub.t)))


@spec_function()
def valid_cfg(eng, st, d):
    top = SV(top_t := cfg_top(eng, st, d).t, "str")
    sub = SV(cfg_sub(eng, st, d).t, "str")
    return sv_bool(z3.And(eng.truth(st, wf_cfg(eng, st, d)), eng.truth(st, valid_pattern(eng, st, top)),
                          eng.truth(st, valid_pattern(eng, st, sub))))


@spec_function()
def fmt2(eng, st, pattern, mother, daughters):
    """pattern.format(mother=..., daughters=...) — str.format is trusted (X-STD), uninterpreted here"""
    from pyvc.builtins_model import FORMAT_SYM
    names = ("daughters", "mother")
    f = FORMAT_SYM.get(names)
    if f is None:
        f = z3.Function("str_format_" + "_".join(names), smt.S, smt.S, smt.S, smt.S)
        FORMAT_SYM[names] = f
    return sv_str(f(get_s(eng.as_val(st, pattern).t), get_s(eng.as_val(st, daughters).t), get_s(eng.as_val(st, mother).t)))


@constructor("Formatter", assumption="X-STD: string.Formatter() is a stateless helper")
def new_formatter(eng, s, args, kwargs):
    return [(PyConst(string.Formatter()), s)]


def _parse_model(eng, recv, args, kw, s):
    """string.Formatter().parse(p): a sequence of 4-tuples (literal, field name | None, spec, conversion)"""
    (p,) = args
    p = eng.as_val(s, p)
    ps = get_s(p.t)
    n = FP_N(ps)
    # block allocation of the n result tuples
    base = s.heap.alloc
    old = s.heap
    new = old.havoc(["llen", "lelem"], [], "fp")
    new.alloc = base + n
    r, i = z3.Ints("fp_r fp_i")
    tref = z3.Function(smt.fresh_name("fmt_tuple"), smt.I, smt.I)     # reference of the i-th result tuple
    s.assume(n >= 0,
             z3.ForAll([r], z3.Implies(r < base, z3.Select(new.arr["llen"], r) == z3.Select(old.arr["llen"], r)),
                       patterns=[z3.Select(new.arr["llen"], r)]),
             z3.ForAll([r], z3.Implies(r < base, z3.Select(new.arr["lelem"], r) == z3.Select(old.arr["lelem"], r)),
                       patterns=[z3.Select(new.arr["lelem"], r)]),
             z3.ForAll([i], z3.Implies(z3.And(0 <= i, i < n),
                                       z3.And(tref(i) == base + i, TYP(tref(i)) == class_id("tuple"),
                                              new.llen(tref(i)) == 4,
                                              new.lget(tref(i), 1) == FP_FIELD(ps, i),
                                              z3.Or(is_str(FP_FIELD(ps, i)), FP_FIELD(ps, i) == VNone))),
                       patterns=[tref(i), FP_FIELD(ps, i)]))
    s.heap = new
    arr = smt.fresh("fp_arr", smt.ArrIV)
    s.assume(z3.ForAll([i], z3.Implies(z3.And(0 <= i, i < n), z3.Select(arr, i) == VRef(tref(i))),
                       patterns=[z3.Select(arr, i), FP_FIELD(ps, i)]))
    return [(SeqView(n, arr, "tuple"), s)]


REG.const_methods.append((lambda obj, name: isinstance(obj, string.Formatter) and name == "parse", _parse_model))
REG.assumptions["string.Formatter.parse"] = ("X-STD: Formatter().parse(p) yields one tuple per chunk whose second item is the "
                                             "replacement-field name (str) or None; deterministic in p")


@external("copy.copy", assumption="X-COPY: copy(d) of a dict is a new dict with the same keys, order and values")
def copy_copy(eng, s, args, kwargs):
    (x,) = args
    x = eng.as_val(s, x)
    if x.ty is None:
        t = eng.static_ty(s, x, ["obj:Tree", "obj:Token", "dict", "list"])
        if t is not None:
            x = eng.with_ty(s, x, t)
    if x.ty is not None and x.ty.startswith("obj:") and eng.reg.class_kind(x.ty[4:]) is None:
        # shallow copy of a plain object: a new object of the same class with the same attribute values
        cls = x.ty[4:]
        ref = eng.alloc(s, cls)
        schema = eng.reg.classes.get(cls)
        for c in eng.reg.mro(cls):
            k = eng.reg.classes.get(c)
            for fname in (k.fields if k else {}):
                s.heap = s.heap.set_field(ref, fname, s.heap.get_field(x.ref, fname))
        return [(sv_ref(ref, x.ty), s)]
    if x.ty == "list":
        return [(eng.new_list(s, s.heap.llen(x.ref), s.heap.lelems(x.ref), "list"), s)]
    if x.ty != "dict":
        from pyvc.engine import Unsupported
        raise Unsupported("copy.copy of " + str(x.ty))
    h = s.heap
    ref = eng.alloc(s, "dict")
    hh = s.heap.copy()
    for k in ("dlen", "dkeys", "dhas", "didx", "dval"):
        hh._put(k, ref, s.heap._get(k, x.ref))
    s.heap = hh
    return [(sv_ref(ref, "dict"), s)]


CFG_INV = "valid_cfg(cls_config())"          # class invariant: the format in force is a valid two-entry dict
C = "decaylanguage.utils.utilities.DescriptorFormat."

contract(C + "set_config", types={"decay_pattern": "str", "sub_decay_pattern": "str"},
         requires=[],
         ensures=["isfresh(cls_config())", "is_cfg(cls_config(), decay_pattern, sub_decay_pattern)"],
         raises={"ValueError": "not (valid_pattern(decay_pattern) and valid_pattern(sub_decay_pattern))"},
         opts={"ensures_on_raise": ["same(cls_config(), old(cls_config()))"]},
         modifies=["classobj('DescriptorFormat')"], modifies_fields=["config"],
         defs=["valid_pattern_def(decay_pattern)", "valid_pattern_def(sub_decay_pattern)"],
         returns="none", properties=["C14"])

contract(C + "format_descriptor", types={"mother": "str", "daughters": "str", "top": "bool"},
         requires=["wf_cfg(cls_config())"],
         ensures=["result == fmt2(cfg_top(cls_config()) if top else cfg_sub(cls_config()), mother, daughters)"],
         returns="str", properties=["C14", "C13", "C10"])

SELF_INV = ["wf_cfg(self.new_config)",
            # every saved format was in force once, hence valid
            "forall(lambda j: implies(0 <= j < len(self._saved_configs), valid_cfg(lget(self._saved_configs, j))))"]

contract(C + "__init__", types={"decay_pattern": "str", "sub_decay_pattern": "str"},
         requires=["wf_cfg(cls_config())"],
         ensures=["is_cfg(self.new_config, decay_pattern, sub_decay_pattern)", "isfresh(self.new_config)",
                  "len(self._saved_configs) == 0", "isfresh(self._saved_configs)",
                  "same(cls_config(), old(cls_config()))"],
         modifies=["self"], modifies_fields=["new_config", "old_config", "_saved_configs"],
         returns="none", properties=["C14"])

contract(C + "__enter__",
         requires=SELF_INV + [CFG_INV],
         ensures=[
             # the format in force at entry is pushed on this object's stack ...
             "len(self._saved_configs) == old(len(self._saved_configs)) + 1",
             "cfg_top(lget(self._saved_configs, len(self._saved_configs) - 1)) == old(cfg_top(cls_config()))",
             "cfg_sub(lget(self._saved_configs, len(self._saved_configs) - 1)) == old(cfg_sub(cls_config()))",
             "valid_cfg(lget(self._saved_configs, len(self._saved_configs) - 1))",
             "forall(lambda j: implies(0 <= j < old(len(self._saved_configs)), same(lget(self._saved_configs, j), old(lget(self._saved_configs, j)))))",
             # ... and this object's format is now in force
             "cfg_top(cls_config()) == old(cfg_top(self.new_config))", "cfg_sub(cls_config()) == old(cfg_sub(self.new_config))",
             "wf_cfg(cls_config())", "same(self._saved_configs, old(self._saved_configs))", "same(self.new_config, old(self.new_config))",
         ],
         raises={"ValueError": "not (valid_pattern(as_ty(cfg_top(self.new_config), 'str')) and valid_pattern(as_ty(cfg_sub(self.new_config), 'str')))"},
         opts={"ensures_on_raise": ["same(cls_config(), old(cls_config()))",
                                    "len(self._saved_configs) == old(len(self._saved_configs))"]},
         modifies=["self", "self._saved_configs", "classobj('DescriptorFormat')"],
         modifies_fields=["config", "old_config"],
         returns="none", properties=["C14"])

contract(C + "__exit__",
         requires=SELF_INV + ["len(self._saved_configs) > 0"],
         ensures=[
             # exactly the format that was in force when this context was entered is restored
             "cfg_top(cls_config()) == old(cfg_top(lget(self._saved_configs, len(self._saved_configs) - 1)))",
             "cfg_sub(cls_config()) == old(cfg_sub(lget(self._saved_configs, len(self._saved_configs) - 1)))",
             "wf_cfg(cls_config())",
             "len(self._saved_configs) == old(len(self._saved_configs)) - 1",
             "forall(lambda j: implies(0 <= j < len(self._saved_configs), same(lget(self._saved_configs, j), old(lget(self._saved_configs, j)))))",
             "same(self._saved_configs, old(self._saved_configs))", "same(self.new_config, old(self.new_config))",
         ],
         modifies=["self", "self._saved_configs", "classobj('DescriptorFormat')"],
         modifies_fields=["config", "old_config"],
         returns="none", properties=["C14"])
