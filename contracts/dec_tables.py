"""C08 / C03: the functions of DecFileParser that add derived decay tables (CopyDecay, CDecay)."""
from pyvc.contracts import contract

C = "decaylanguage.dec.dec.DecFileParser."
DECAYS = "self._parsed_decays"
FILE = "self._parsed_dec_file"
PARSED = [f"typ({FILE}, 'obj:Tree') and wf_labels({FILE}, 'copydecay', 'label', 'cdecay', 'chargeconj')",
          f"typ({DECAYS}, 'list')",
          f"forall(lambda j: implies(0 <= j < llen({DECAYS}), table_head(lget({DECAYS}, j))))",
          # every table is an object of its own
          f"forall(lambda j, k: implies(0 <= j < k < llen({DECAYS}), not same(lget({DECAYS}, j), lget({DECAYS}, k))))"]

COPY_OF = ("exists(lambda k: 0 <= k < old(llen({D})) and deepcopy_of_then({e}, old(lget({D}, k))))").replace("{D}", DECAYS)

contract(C + "_add_decays_to_be_copied",
         requires=PARSED,
         ensures=[
             f"same({DECAYS}, old({DECAYS}))", f"llen({DECAYS}) >= old(llen({DECAYS}))",
             # the tables that existed are still there, in place (their contents are outside the frame)
             f"forall(lambda j: implies(0 <= j < old(llen({DECAYS})), same(lget({DECAYS}, j), old(lget({DECAYS}, j)))))",
             # every added table is a new object ...
             f"forall(lambda j: implies(old(llen({DECAYS})) <= j < llen({DECAYS}), isfresh(lget({DECAYS}, j)) and typ(lget({DECAYS}, j), 'obj:Tree')))",
             # ... a deep copy of one of the existing tables, made for a `CopyDecay NEW OLD` statement, renamed NEW
             f"forall(lambda j: implies(old(llen({DECAYS})) <= j < llen({DECAYS}), "
             f"   exists(lambda k, p: 0 <= k < old(llen({DECAYS})) and 0 <= p < len(stmts({FILE}, 'copydecay')) and "
             f"          copied_from(lget({DECAYS}, j), old(lget({DECAYS}, k))) and "
             f"          old(mother_of(lget({DECAYS}, k))) == stmts({FILE}, 'copydecay')[p].children[1].children[0].value and "
             f"          mother_of(lget({DECAYS}, j)) == stmts({FILE}, 'copydecay')[p].children[0].children[0].value)))",
             # completeness: the (last) CopyDecay statement of every NEW whose OLD has a table yields a table named NEW
             f"forall(lambda p: implies(0 <= p < len(S_COPY) and forall(lambda q: implies(p < q < len(S_COPY), S_COPY[q].children[0].children[0].value != S_COPY[p].children[0].children[0].value)) and "
             f"       exists(lambda k: 0 <= k < old(llen({DECAYS})) and old(mother_of(lget({DECAYS}, k))) == S_COPY[p].children[1].children[0].value), "
             f"       exists(lambda j: old(llen({DECAYS})) <= j < llen({DECAYS}) and mother_of(lget({DECAYS}, j)) == S_COPY[p].children[0].children[0].value)))".replace("S_COPY", "stmts(self._parsed_dec_file, 'copydecay')"),
         ],
         loops={
             "comp#0": {},
             "loop#0": {"invariant": [
                 "isfresh(copied_decays)", "isfresh(misses)", "not same(copied_decays, misses)",
                 f"same({DECAYS}, old({DECAYS}))", f"llen({DECAYS}) == old(llen({DECAYS}))",
                 f"forall(lambda j: implies(0 <= j < llen({DECAYS}), same(lget({DECAYS}, j), old(lget({DECAYS}, j)))))",
                 "forall(lambda j: implies(0 <= j < llen(copied_decays), isfresh(lget(copied_decays, j)) and typ(lget(copied_decays, j), 'obj:Tree')))",
                 # the copies are tables of their own down to the mother token
                 "forall(lambda j: implies(0 <= j < llen(copied_decays), table_head(lget(copied_decays, j))))",
                 "forall(lambda j: implies(0 <= j < llen(copied_decays), isfresh(mother_token(lget(copied_decays, j)))))",
                 # the copies were allocated after the two result lists: they cannot contain them
                 "forall(lambda j: implies(0 <= j < llen(copied_decays), refnum(lget(copied_decays, j).children) >= _loop_alloc and "
                 "       refnum(lget(lget(copied_decays, j).children, 0).children) >= _loop_alloc))",
                 f"forall(lambda j: implies(0 <= j < llen(copied_decays), "
                 f"   exists(lambda k, p: 0 <= k < old(llen({DECAYS})) and 0 <= p < len(stmts({FILE}, 'copydecay')) and "
                 f"          copied_from(lget(copied_decays, j), old(lget({DECAYS}, k))) and "
                 f"          old(mother_of(lget({DECAYS}, k))) == stmts({FILE}, 'copydecay')[p].children[1].children[0].value and "
                 f"          mother_of(lget(copied_decays, j)) == stmts({FILE}, 'copydecay')[p].children[0].children[0].value)))",
                 # every pair of the CopyDecay table processed so far whose source exists has its copy
                 f"forall(lambda q: implies(0 <= q < _i and exists(lambda k: 0 <= k < old(llen({DECAYS})) and old(mother_of(lget({DECAYS}, k))) == value_at(decays2copy, q)), "
                 f"       exists(lambda j: 0 <= j < llen(copied_decays) and mother_of(lget(copied_decays, j)) == key_at(decays2copy, q))))",
             ], "types": {"copied_decays": "list", "misses": "list"}},
         },
         modifies=[DECAYS], returns="none", properties=["C08"])


# ---- CDecay: charge-conjugate tables (C03, C08) -----------------------------------------------------------------
CD = "stmts(self._parsed_dec_file, 'cdecay')"
contract(C + "_add_charge_conjugate_decays",
         requires=PARSED + [
             # each name is the subject of at most one CDecay statement (C03's quantifier, P-CD1)
             f"forall(lambda a, b: implies(0 <= a < b < len({CD}), {CD}[a].children[0].value != {CD}[b].children[0].value))"],
         ensures=[
             f"same({DECAYS}, old({DECAYS}))", f"llen({DECAYS}) >= old(llen({DECAYS}))",
             # the source tables are left untouched and in place (their contents are outside the frame)
             f"forall(lambda j: implies(0 <= j < old(llen({DECAYS})), same(lget({DECAYS}, j), old(lget({DECAYS}, j)))))",
             # every added table is a new object: a private deep copy of one of the existing tables
             f"forall(lambda j: implies(old(llen({DECAYS})) <= j < llen({DECAYS}), isfresh(lget({DECAYS}, j)) and typ(lget({DECAYS}, j), 'obj:Tree')))",
             # ... none of whose mutable nodes existed before the call (no state shared with the source table)
             f"forall(lambda j: implies(old(llen({DECAYS})) <= j < llen({DECAYS}), reach_fresh(lget({DECAYS}, j))))",
             # no CDecay statement, nothing added
             f"implies(len({CD}) == 0, llen({DECAYS}) == old(llen({DECAYS})))",
         ],
         loops={
             "comp#0": {},
             "loop#0": {"invariant": [
                 "typ(mother_names_ccdecays, 'list')", "isfresh(mother_names_ccdecays)",
                 # the names still to be removed are still there; names stay pairwise distinct
                 "forall(lambda j: implies(_i <= j < len(duplicates), exists(lambda m: 0 <= m < llen(mother_names_ccdecays) and same(lget(mother_names_ccdecays, m), lget(duplicates, j)))))",
                 "forall(lambda a, b: implies(0 <= a < b < llen(mother_names_ccdecays), not same(lget(mother_names_ccdecays, a), lget(mother_names_ccdecays, b))))",
                 "forall(lambda a, b: implies(0 <= a < b < len(duplicates), not same(lget(duplicates, a), lget(duplicates, b))))",
                 "forall(lambda a: implies(0 <= a < llen(mother_names_ccdecays), typ(lget(mother_names_ccdecays, a), 'str')))",
             ], "types": {"mother_names_ccdecays": "list"}},
             "loop#1": {"invariant": [
                 "isfresh(trees_to_conjugate)", "isfresh(misses)", "not same(trees_to_conjugate, misses)",
                 f"forall(lambda k: implies(dhas(name2treepos, k), typ(dget(name2treepos, k), 'int') and 0 <= dget(name2treepos, k) < llen({DECAYS})))",
                 # the trees picked are stored tables: `decay` trees (as far as their head goes) that existed before the call
                 f"forall(lambda j: implies(0 <= j < llen({DECAYS}), table_head(lget({DECAYS}, j)) and not isfresh(lget({DECAYS}, j))))",
                 "forall(lambda j: implies(0 <= j < llen(trees_to_conjugate), typ(lget(trees_to_conjugate, j), 'obj:Tree')))",
                 "forall(lambda j: implies(0 <= j < llen(trees_to_conjugate), not isfresh(lget(trees_to_conjugate, j))))",
                 "forall(lambda j: implies(0 <= j < llen(trees_to_conjugate), table_head(lget(trees_to_conjugate, j))))",
             ], "types": {"trees_to_conjugate": "list", "misses": "list"}},
             "comp#5": {"invariant": [
                 "isfresh(_acc)", "len(_acc) == _i",
                 "forall(lambda j: implies(0 <= j < _i, isfresh(lget(_acc, j)) and typ(lget(_acc, j), 'obj:Tree') and copied_from(lget(_acc, j), _seq[j]) and reach_fresh(lget(_acc, j))))",
                 "forall(lambda j: implies(0 <= j < _i, table_head(lget(_acc, j))))",
                 "forall(lambda j: implies(0 <= j < _i, refnum(lget(_acc, j).children) >= _loop_alloc and refnum(lget(lget(_acc, j).children, 0).children) >= _loop_alloc))",
                 # the copies are made one after the other: an earlier one lies entirely below the head token of a later one
                 "forall(lambda j: implies(0 <= j < _i, reach_within(lget(_acc, j))))",
                 "forall(lambda j: implies(0 <= j < _i, copy_lo(lget(_acc, j)) <= refnum(lget(lget(lget(_acc, j).children, 0).children, 0)) < copy_hi(lget(_acc, j))))",
                 "forall(lambda j: implies(0 <= j < _i, copy_hi(lget(_acc, j)) <= heap_alloc()))",
                 "forall(lambda a, b: implies(0 <= a < b < _i, copy_hi(lget(_acc, a)) <= copy_lo(lget(_acc, b))))",
             ], "types": {"_acc": "list"}},
             "loop#2": {"invariant": [
                 "typ(cdecays, 'list')", "llen(cdecays) == _n",
                 "forall(lambda j: implies(0 <= j < llen(cdecays), same(lget(cdecays, j), _seq[j])))",
                 "forall(lambda j: implies(0 <= j < llen(cdecays), isfresh(lget(cdecays, j)) and typ(lget(cdecays, j), 'obj:Tree') and reach_fresh(lget(cdecays, j))))",
                 "forall(lambda j: implies(_i <= j < llen(cdecays), table_head(lget(cdecays, j))))",
                 "forall(lambda j: implies(0 <= j < llen(cdecays), reach_within(lget(cdecays, j)) and copy_lo(lget(cdecays, j)) <= refnum(lget(lget(lget(cdecays, j).children, 0).children, 0)) < copy_hi(lget(cdecays, j))))",
                 "forall(lambda a, b: implies(0 <= a < b < llen(cdecays), copy_hi(lget(cdecays, a)) <= copy_lo(lget(cdecays, b))))",
                 "typ(dict_cc_names, 'dict') and is_dict_str_str(dict_cc_names)",
                 f"same({DECAYS}, old({DECAYS}))", f"llen({DECAYS}) == old(llen({DECAYS}))",
                 f"forall(lambda j: implies(0 <= j < llen({DECAYS}), same(lget({DECAYS}, j), old(lget({DECAYS}, j)))))",
             ], "modifies": ["dict_cc_names"], "modifies_fields": ["value", "charge_conj_defs"]},
         },
         modifies=[DECAYS], returns="none", properties=["C03", "C08"])
