#!/bin/bash
# runs every registered check (quick tier by default) sequentially; summary in /var/tmp/dlverif_run_all.log
cd "$(dirname "$0")/.."
TIER=${1:-quick}
LOG=/var/tmp/dlverif_run_all.log
: > $LOG
for p in $(python3 -c "import json;print(' '.join(c['property_id'] for c in json.load(open('MANIFEST.json'))['checks']))"); do
  s=$(date +%s)
  ./check $p --tier $TIER > /var/tmp/dlverif_$p.log 2>&1
  rc=$?
  echo "$p exit=$rc wall=$(( $(date +%s) - s ))s $(grep -c '^VIOLATION' /var/tmp/dlverif_$p.log) violations" >> $LOG
done
echo DONE >> $LOG
