#!/usr/bin/env python3
"""Confirm a seeded change and run the registered checks against it.

  tools/eval_seeded.py confirm <dir>      in a scratch worktree: patch applies, demo fails with / passes without,
                                          the repository's test suite still passes with the change
  tools/eval_seeded.py check <dir> [tier] apply the patch to /repo, run ./check <property>, undo; record the verdict

<dir> holds patch.diff, demo.py, meta.json (property id).  Results are written to <dir>/result.json.
Nothing is ever committed to /repo; the patch is undone in a finally block.
"""
import json
import os
import shutil
import subprocess
import sys
import time

REPO = "/repo"
VERIF = os.path.dirname(os.path.dirname(os.path.abspath(__file__)))
PY = "/venv/bin/python"
PYTEST = [PY, "-m", "pytest", "-q", "-p", "no:cacheprovider", "--timeout=900",
          "--deselect", "tests/dec/test_dec.py::test_particle_property_definitions",
          "--deselect", "tests/test_convert.py::test_full_convert"]


def sh(cmd, cwd=None, env=None, timeout=3600):
    p = subprocess.run(cmd, cwd=cwd, env=env, capture_output=True, text=True, timeout=timeout)
    return p.returncode, p.stdout + p.stderr


def load(d):
    meta = json.load(open(os.path.join(d, "meta.json")))
    res_path = os.path.join(d, "result.json")
    res = json.load(open(res_path)) if os.path.exists(res_path) else {}
    return meta, res, res_path


def confirm(d, run_tests=True):
    meta, res, res_path = load(d)
    wt = f"/var/tmp/dlverif_wt_{os.getpid()}"
    sh(["git", "-C", REPO, "worktree", "add", "-q", "--detach", wt, "HEAD"])
    try:
        shutil.copy(os.path.join(REPO, "src/decaylanguage/_version.py"), os.path.join(wt, "src/decaylanguage/_version.py"))
        env = dict(os.environ, PYTHONPATH=os.path.join(wt, "src"))
        demo = os.path.abspath(os.path.join(d, "demo.py"))
        rc0, out0 = sh([PY, demo], cwd=wt, env=env, timeout=600)
        rc, out = sh(["git", "-C", wt, "apply", os.path.abspath(os.path.join(d, "patch.diff"))])
        res["patch_applies"] = rc == 0
        if rc != 0:
            res["apply_output"] = out[-500:]
        rc1, out1 = sh([PY, demo], cwd=wt, env=env, timeout=600)
        res["demo_without_change_passes"] = rc0 == 0
        res["demo_with_change_fails"] = rc1 != 0
        res["demo_failure"] = out1.strip().splitlines()[-1][:300] if rc1 != 0 and out1.strip() else ""
        if run_tests:
            t0 = time.time()
            rct, outt = sh(PYTEST, cwd=wt, env=env, timeout=3600)
            res["tests_pass_with_change"] = rct == 0
            res["tests_tail"] = outt.strip().splitlines()[-1][:200] if outt.strip() else ""
            res["tests_wall_s"] = round(time.time() - t0)
    finally:
        sh(["git", "-C", REPO, "worktree", "remove", "--force", wt])
        shutil.rmtree(wt, ignore_errors=True)
    json.dump(res, open(res_path, "w"), indent=1)
    print(d, {k: res.get(k) for k in ("patch_applies", "demo_without_change_passes", "demo_with_change_fails", "tests_pass_with_change")})


def check_scratch(d, tier="quick", props=None):
    """like check, but against a scratch worktree of /repo (DLVERIF_REPO): /repo itself is not touched, so several of
    these can run while /repo is being read by other checks; evidence and replays go to the scratch directory"""
    meta, res, res_path = load(d)
    pids = props or [meta["property"]]
    base = f"/var/tmp/dlverif_seed_{os.getpid()}"
    wt = os.path.join(base, "repo")
    os.makedirs(base, exist_ok=True)
    sh(["git", "-C", REPO, "worktree", "add", "-q", "--detach", wt, "HEAD"])
    try:
        shutil.copy(os.path.join(REPO, "src/decaylanguage/_version.py"), os.path.join(wt, "src/decaylanguage/_version.py"))
        rc, out = sh(["git", "-C", wt, "apply", os.path.abspath(os.path.join(d, "patch.diff"))])
        if rc != 0:
            print("patch does not apply:", out)
            return 2
        env = dict(os.environ, DLVERIF_REPO=wt, PYTHONPATH=os.path.join(wt, "src"),
                   DLVERIF_EVIDENCE_DIR=os.path.join(base, "evidence"), DLVERIF_REPLAY_DIR=os.path.join(base, "replays"))
        for pid in pids:
            t0 = time.time()
            rc, out = sh([os.path.join(VERIF, "check"), pid, "--tier", tier], cwd=VERIF, env=env, timeout=7200)
            lines = [l for l in out.splitlines() if l.startswith(("VIOLATION", "UNDECIDED", "CHECKER-ERROR", "KNOWN-FINDING")) or "!!" in l]
            res.setdefault("checks", {})[pid] = dict(tier=tier, exit=rc, wall_s=round(time.time() - t0), lines=[l.replace(base + "/", "") for l in lines[:12]],
                                                   detected=(rc == 1 and any(l.startswith("VIOLATION") for l in lines)))
            print(d, pid, "exit", rc, "wall", round(time.time() - t0), *lines[:6], sep="\n   ")
    finally:
        sh(["git", "-C", REPO, "worktree", "remove", "--force", wt])
        shutil.rmtree(base, ignore_errors=True)
    json.dump(res, open(res_path, "w"), indent=1)
    return 0


def check(d, tier="quick", props=None):
    meta, res, res_path = load(d)
    pids = props or [meta["property"]]
    rc, out = sh(["git", "-C", REPO, "status", "--porcelain", "--untracked-files=no"])
    if out.strip():
        print("refusing: /repo has uncommitted changes:\n" + out)
        return 2
    rc, out = sh(["git", "-C", REPO, "apply", os.path.abspath(os.path.join(d, "patch.diff"))])
    if rc != 0:
        print("patch does not apply to /repo:", out)
        return 2
    try:
        for pid in pids:
            t0 = time.time()
            rc, out = sh([os.path.join(VERIF, "check"), pid, "--tier", tier], cwd=VERIF, timeout=7200)
            lines = [l for l in out.splitlines() if l.startswith(("VIOLATION", "UNDECIDED", "CHECKER-ERROR", "KNOWN-FINDING")) or "!!" in l]
            res.setdefault("checks", {})[pid] = dict(tier=tier, exit=rc, wall_s=round(time.time() - t0), lines=lines[:12],
                                                   detected=(rc == 1 and any(l.startswith("VIOLATION") for l in lines)))
            print(d, pid, "exit", rc, "wall", round(time.time() - t0), *lines[:6], sep="\n   ")
    finally:
        sh(["git", "-C", REPO, "checkout", "--", "."])
    json.dump(res, open(res_path, "w"), indent=1)
    return 0


if __name__ == "__main__":
    cmd, d = sys.argv[1], sys.argv[2]
    if cmd == "confirm":
        confirm(d, run_tests="--no-tests" not in sys.argv)
    elif cmd in ("check", "check-scratch"):
        tier = sys.argv[3] if len(sys.argv) > 3 and not sys.argv[3].startswith("C") else "quick"
        props = [a for a in sys.argv[3:] if a.startswith("C")] or None
        sys.exit((check if cmd == "check" else check_scratch)(d, tier, props))
