#!/usr/bin/env python3
"""summarise the output of `./check func|hints ...` read from stdin: functions not fully discharged"""
import sys,re
cur=None
for l in sys.stdin:
    if l.startswith('decaylanguage'): cur=l.strip()
    m=re.search(r'(\d+)/(\d+) discharged',l)
    if m:
        if m.group(1)!=m.group(2) or ' ok ' not in cur: print(cur[:170], m.group(0))
    if l.startswith('    ') and ('unknown' in l or 'sat ' in l): print(l.rstrip()[:230])
