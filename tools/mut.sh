#!/bin/bash
# tools/mut.sh <file-relative-to-src/decaylanguage> <sed-expression> <qualname>...   — hand mutation on a scratch copy (never /repo)
set -e
cd "$(dirname "$0")/.."
S=$(mktemp -d /var/tmp/mut.XXXXXX)
trap 'rm -rf "$S"' EXIT
mkdir -p "$S/src"; cp -r /repo/src/decaylanguage "$S/src/"
f="$S/src/decaylanguage/$1"; e="$2"; shift 2
sed -i "$e" "$f"
diff -u "/repo/src/decaylanguage/${f#$S/src/decaylanguage/}" "$f" | tail -n +3 || true
DLVERIF_REPO="$S" PYTHONPATH="$S/src:$(pwd)" PYTHONDONTWRITEBYTECODE=1 .venv/bin/python -m pyvc.cli func "$@" 2>&1 | grep -v "^ *unsat" | cut -c1-200 | tail -15
