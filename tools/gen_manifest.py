#!/usr/bin/env python3
"""Regenerates /verif/MANIFEST.json from the table below (kept here so that notes stay consistent)."""
import json
import os
import subprocess

ROOT = os.path.dirname(os.path.dirname(os.path.abspath(__file__)))
TECH = ("contract-based deductive verification: sidecar contracts on the real functions, VCs generated from their ast on every "
        "run (PyVC) and discharged by z3/cvc5; ")

# id -> (category, text, note, technique suffix, design ref)
CHECKS = {
 "C01": ("other", "Tree->answers for every well-formed tree is proved (getters, _find_decay_modes, _decay_mode_details, parameter "
         "replacement); the label / number terminal languages are decided for all strings by z3's regex theory; the text->tree step "
         "(Lark's LALR engine applied to the grammar) is a bounded comparison with an independent reference reader.",
         "Trusted: Lark builds the tree the grammar denotes (X-LARK), Tree.find_data order (X-TREE), float(). _check_parsed_decays "
         "(duplicate removal) is bounded only.", "lexical obligations (regex theory); bounded: parse vs reference reader", "5/C01"),
 "C02": ("other", "Terminal languages (_NEWLINE, COMMENT, WS_INLINE, _SEMICOLON, _COMMA, %ignore, no separator inside any other "
         "terminal) and rule-shape facts are decided on what Lark compiles from the current grammar; the inference from those facts to "
         "layout invariance is a paper lemma; invariance itself is a bounded relational check (rewrites at every boundary, files, BOM, CRLF).",
         "The constructor's file loop is not yet under contract (bounded only). Paper lemma about LALR parsing is not machine-checked.",
         "lexical obligations; bounded: rewrite invariance", "5/C02"),
 "C03": ("other", "find_charge_conjugate_match (all 4 paths, loop invariant), ChargeConjugateReplacement.particle, get_charge_conjugate_defs/"
         "decays, charge_conjugate_name's control flow and _add_charge_conjugate_decays (stored tables untouched and in place, added tables "
         "entirely new objects, nothing added without CDecay, no escaping exception) are proved for all inputs; which source table is conjugated "
         "for which name, the content of the result and parse(include_ccdecays) are bounded end-to-end.", "A-CC (name table properties) established exhaustively by C04; deepcopy/Visitor.visit assumed.",
         "bounded: generated files incl. >3 tables, both switch values", "5/C03"),
 "C04": ("other", "charge_conjugate_name: control-flow contract proved; its table-level properties (PDG-ID negation, involution, marker) "
         "are evaluated on EVERY name of the installed tables (finite, exhaustive). Class-level conjugation and agreement with CDecay: bounded.",
         "particle table contents trusted as installed.", "exhaustive finite enumeration of the name tables", "5/C04"),
 "C05": ("other", "get_definitions (last wins), DecayModelParamValueReplacement._replacement / model_options (literal->float, Define'd "
         "word->value, sign, verbatim otherwise; tokens unshared as precondition) are proved; alias expansion and the parse orchestration "
         "are bounded (expansion equivalence).", "DecayModelAliasReplacement / parse not yet under contract.",
         "bounded: textual expansion equivalence", "5/C05"),
 "C06": ("other", "On the MODEL_NAME terminal Lark compiles with the real callback: structure (alternation of literals + negative look-ahead "
         "over exactly the LABEL alphabet), alternatives == published names, and a lemma proved by z3 for ALL words/continuations/alphabets: "
         "the terminal matches at a label word iff the whole word is a listed name (order of alternatives irrelevant). User-registered names and "
         "rejection through _replacement: bounded end-to-end.", "Lark's contextual lexer trusted; load_additional_decay_models bounded only.",
         "lexical lemma (z3 arrays); bounded: registered-name families", "5/C06"),
 "C07": ("other", "Eleven of the declaration getters are proved for every well-formed tree (every statement accounted for, verbatim, later wins, "
         "sorted CDecay list as a permutation, last PHOTOS flag); the rest and the text->tree step are bounded against the reference reader.",
         "get_jetset_definitions and get_lineshape_settings: bounded only so far; the default width looked up in the particle table is not specified.", "bounded: parse vs reference reader", "5/C07"),
 "C08": ("other", "Bounded: copies/derived tables share no object with their source (white-box disjointness), exhaustive query/mutation/query pairs "
         "and random histories compared with a fresh instance. Proof: _add_decays_to_be_copied and _add_charge_conjugate_decays (added tables are "
         "fresh deep copies sharing no mutable node with what existed; old tables untouched), build_decay_chains and the queries under contract "
         "have empty frames and fresh results.",
         "_expand_decay_modes, print_decay_modes, parse: bounded only.", "frame obligations; bounded: histories", "5/C08"),
 "C09": ("proof", "Every clause is a discharged obligation (partial correctness): build_decay_chains is proved against the property statement (one unfolding level per call; deeper levels are the recursive results, "
         "identified by ghost attributes its own contract writes on return), with _find_decay_modes (first table, DecayNotFound iff none) and "
         "_decay_mode_details; exhaustive small table sets with all stable subsets run in addition (bounded).",
         "Termination of the recursion (acyclic tables) is not proved; ghost attributes are specification-only state.",
         "contracts + VC generation; bounded: exhaustive table sets", "5/C09"),
 "C10": ("other", "format_descriptor is proved; _expand_decay_modes (recursive in-place expansion) is bounded: exhaustive small table sets, path count "
         "= sum of products, descriptors as multisets.", "str.format trusted.", "bounded: exhaustive table sets", "5/C10"),
 "C11": ("other", "Proved per function: DaughtersDict.__init__/to_list (names with multiplicities, one canonical order), DecayMode.__init__ (incl. fs= route), "
         "to_dict, from_dict (all but the multiplicities through its private deep copy), _get_modes, _get_fs. The round trips as a whole, DecayChain "
         "and the string / PDG-ID constructors are bounded: exhaustive chain shapes (incl. repeated decaying particles), mode/chain/parser round "
         "trips, all 806 PDG IDs.",
         "The composition to_dict;from_dict = identity is a paper argument over the two contracts; DecayChain.*, _build_decay_modes not under contract.", "bounded: exhaustive shapes", "5/C11"),
 "C12": ("other", "Only the accessors of DecayChain are proved (constructor, top_level_decay, bf, ndecays). Bounded stand-in for the fix-point loop: every acyclic shape up to 6 decaying particles, all stable subsets, all permutations "
         "(<=4 entries), exact Fractions.", "No unbounded proof of the fix-point result is attempted (nonlinear weighted multiset invariant).",
         "bounded: exhaustive shapes with exact rationals", "5/C12"),
 "C13": ("other", "format_descriptor (pattern selection top/nested) is proved; canonicity and read-back injectivity are bounded (exhaustive shapes, "
         "names with parentheses, 7 pattern pairs).", "String-theory proof of injectivity not attempted.", "bounded: read-back", "5/C13"),
 "C14": ("proof", "Every method of DescriptorFormat is under contract and all obligations are discharged for all inputs: set_config installs exactly "
         "the two patterns iff both have exactly the fields {mother, daughters} (else ValueError and unchanged format), __enter__ pushes the format "
         "in force, __exit__ restores exactly it; the stack discipline for histories of any length follows by induction over the contracts. "
         "A bounded history check (all sequences up to length 6) runs in addition.",
         "string.Formatter().parse and str.format assumed (X-STD).", "all clauses are discharged obligations; bounded histories extra", "5/C14"),
 "C15": ("other", "Bounded only: no function of viewer.py is under contract (the graph is built by closures nested in one method around graphviz calls and HTML "
         "string templates, outside PyVC's subset). Graph structure (nodes/edges/labels/ports/ids) is compared with the spec on generated chain dicts; dot "
         "acceptance on a sample. Nothing is counted as proved.",
         "viewer.py not under contract; Graphviz itself out of reach.", "bounded stand-in only: generated chain dicts (no contract within the verifier's reach)", "5/C15"),
 "C16": ("other", "Proved for every table and option combination: print_decay_modes refuses exactly the contradictory / out-of-range options (RuntimeError iff scale is "
         "given with normalize or lies outside ]0,1]; DecayNotFound iff no table), and has an empty frame - printing writes to nothing that existed "
         "(97 obligations); _find_decay_modes / _decay_mode_details proved (rows = lines of the first table, PHOTOS iff flagged and asked). What is printed "
         "(order, ties, scaling, 7 significant digits) is text on stdout: bounded, every option combination on generated tables (ties, 1e-12..1).",
         "Trusted: sorted() returns a permutation (no ordering facts used), print/str.format are opaque. ZeroDivisionError is declared possible without a condition (all-zero values).",
         "bounded: tables x options", "5/C16"),
 "C17": ("other", "Proved: the AmpGenTransformer callbacks that make the table rows and the event type (constant, variable, event_type, checkfixed, fixed, free: "
         "name / flag / value / error verbatim, flag = int(text) > 0, names in the order written) and get_from_parser (rows of every statement, in file order). "
         "Bounded: read_ampgen end to end against an independent reference reader on generated option texts (expansion, couplings, tags).",
         "cplx_decay_line, decay, from_matched_line, expand_lines, read_ampgen (pandas, Lark) not under contract. Trusted: Lark hands a callback the children the grammar denotes; "
         "a Token's str content is immutable.", "bounded: generated option files", "5/C17"),
 "C18": ("other", "Proved: ModelDecay.is_vertex / __len__ / __getitem__ (a resonance is a node with exactly two daughters). Bounded: permutation sets exhaustively over "
         "tree shapes <= 4 leaves; generated code per permutation for both languages.",
         "vertexes (contract written, 22/25 obligations, unregistered), structure, list_structure (itertools.product) and goofit.py not under contract.",
         "bounded: exhaustive shapes + generated files", "5/C18"),
 "C19": ("other", "Bounded only: no function of goofit.py / ampgen2goofit.py is under contract (string templates over pandas tables, outside PyVC's subset). Same abstract "
         "model in both outputs, declared-before-used, compile(), string vs printed vs CLI on generated files. Clause 'runs against the GooFit API' is not "
         "applicable (no GooFit here). Nothing is counted as proved.", "modeling/goofit.py not under contract.",
         "bounded stand-in only: generated files (no contract within the verifier's reach)", "5/C19"),
 "C20": ("other", "Bounded only: the property is about process-wide class state across calls of read_ampgen (Lark + pandas), which is not under contract. Call sequences are "
         "compared with first-call-in-fresh-interpreter references. Clause about PYTHONHASHSEED / fresh process is a process-level experiment (bounded "
         "sample only). Nothing is counted as proved.", "modeling/ not under contract.",
         "bounded stand-in only: call sequences (no contract within the verifier's reach)", "5/C20"),
}


def main():
    props = [json.loads(l) for l in open(os.path.join(ROOT, "properties.jsonl"))]
    have = {p for p in CHECKS if os.path.exists(os.path.join(ROOT, "checks", p + ".py")) or p in ("C14",)}
    active = os.environ.get("MANIFEST_ONLY")
    if active:
        have &= set(active.split(","))
    fixes = subprocess.run(["git", "-C", "/repo", "log", "--format=%h %s", "0aaa761..HEAD"], capture_output=True, text=True).stdout.splitlines()
    m = {
        "version": 1, "setup_cmd": "./setup.sh",
        "hooks": {"guard": "DECAYLANGUAGE_VERIF",
                  "enable": "no instrumentation is added to /repo: contracts are sidecar files under /verif/contracts and the verifier re-reads "
                            "/repo/src on every run; the guard is declared but unused",
                  "baseline_off_cmd": "cd /repo && /venv/bin/python -m pytest -ra -q -p no:cacheprovider --timeout=900 --continue-on-collection-errors",
                  "source_commits": [f.split()[0] for f in fixes if " fix:" in " " + f], "add_only": True},
        "engines": [{"name": "pyvc", "path": "pyvc/", "serves_properties": sorted(have),
                     "kind_free_text": "verification-condition generator over the ast of the real /repo functions + sidecar contracts, z3 (two "
                                       "instantiation modes) and cvc5 as back ends; regex-theory obligations on Lark's compiled terminals"},
                    {"name": "bounded", "path": "checks/", "serves_properties": sorted(have),
                     "kind_free_text": "bounded stand-ins: run-time evaluation of property oracles on exhaustive small-scope enumerations "
                                       "(labelled bounded, never counted as proved)"}],
        "checks": [], "notes": "See DESIGN.md. Exit codes of ./check: 0 held, 1 VIOLATION, 2 undecided, 3 checker error.",
        "not_applicable": [],
    }
    for p in props:
        pid = p["id"]
        if pid in have:
            cat, text, note, tech, ref = CHECKS[pid]
            m["checks"].append({
                "property_id": pid, "quick_cmd": f"./check {pid} --tier quick", "thorough_cmd": f"./check {pid} --tier thorough",
                "evidence_file": f"evidence/{pid}.json", "replay_cmd_template": "./check replay {path}", "engine": "pyvc",
                "level_claimed": {"category": cat, "text": text, "design_ref": "DESIGN.md " + ref},
                "level_note": note, "technique": TECH + tech})
        else:
            m["not_applicable"].append({"property_id": pid, "reason": "check not built yet (see DESIGN.md build order)"})
    json.dump(m, open(os.path.join(ROOT, "MANIFEST.json"), "w"), indent=1)
    print("checks:", [c["property_id"] for c in m["checks"]], "n/a:", [c["property_id"] for c in m["not_applicable"]])


if __name__ == "__main__":
    main()
