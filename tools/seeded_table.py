#!/usr/bin/env python3
"""Prints the markdown table of seeded changes and verdicts (from seeded/*/meta.json + result.json)."""
import glob
import json
import os

ROOT = os.path.dirname(os.path.dirname(os.path.abspath(__file__)))
rows = []
for d in sorted(glob.glob(os.path.join(ROOT, "seeded", "C*"))):
    try:
        meta = json.load(open(os.path.join(d, "meta.json")))
        res = json.load(open(os.path.join(d, "result.json")))
    except Exception:
        continue
    confirmed = all(res.get(k) for k in ("patch_applies", "demo_without_change_passes", "demo_with_change_fails", "tests_pass_with_change"))
    verdicts = []
    for pid, c in sorted(res.get("checks", {}).items()):
        how = []
        for l in c.get("lines", []):
            if l.startswith("VIOLATION"):
                how.append(("proof obligation" if "no-failing-input-found" in l else "replayed input") + " " + l.split("replay=")[1].split()[0].split("/")[-1].rsplit("-", 1)[0])
            elif "!!" in l:
                how.append("obligations of " + l.split("!!")[1].strip().split(":")[0].rsplit(".", 1)[-1])
        verdicts.append(f"{pid}: {'**detected**' if c.get('detected') else 'missed (exit %s)' % c.get('exit')}" + (" — " + "; ".join(dict.fromkeys(how)) if how else ""))
    rows.append((os.path.basename(d), meta.get("summary", "")[:150].replace("|", "/"), meta.get("needs", "")[:110].replace("|", "/"),
                 "yes" if confirmed else "NO", "<br>".join(verdicts)))
print("| seeded | change | needs to manifest | confirmed | verdict of ./check (quick) |")
print("|---|---|---|---|---|")
for r in rows:
    print("| " + " | ".join(r) + " |")
